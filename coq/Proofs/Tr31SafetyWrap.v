(* C15, part 4: Header.dump / __str__, KeyBlock.wrap and wrap() raise
   HeaderError / KeyBlockError only; object-level invariants. *)
From Coq Require Import Lia ZifyBool ZifyNat ZifyN.
From Psec Require Import Lib.Base Cipher.Cipher Model.Tools Model.Mac Model.Tr31
  Proofs.XorLemmas Proofs.Tr31Defs Proofs.Tr31SafetyBase Proofs.Tr31SafetyLoad
  Proofs.Tr31SafetyUnwrap.
Ltac Zify.zify_post_hook ::= Z.to_euclidean_division_equations.
Open Scope N_scope.

Lemma bind_ok_inv {A B} (m : res A) (f : A -> res B) b :
  bind m f = Ok b -> exists a, m = Ok a /\ f a = Ok b.
Proof. destruct m as [a|e]; [|discriminate]. intros H. exists a. split; [reflexivity | exact H]. Qed.

(* ------------------------------------------------------------------ *)
(* text produced by the dump side is ASCII                              *)
Lemma hexdigit_upper_ascii n : n < 16 -> is_ascii (hexdigit_upper n) = true.
Proof. unfold hexdigit_upper, is_ascii. intros H. destruct (n <? 10); lia. Qed.

Lemma hex_upper_ascii b : bytes_ok b = true -> forallb is_ascii (hex_upper b) = true.
Proof.
  induction b as [|x b IH]; intros H; [reflexivity|].
  apply bytes_ok_cons in H as [Hx Hb]. unfold hex_upper in *. cbn [flat_map app forallb].
  rewrite !hexdigit_upper_ascii by lia. rewrite (IH Hb). reflexivity.
Qed.

Lemma repeat_ascii c n : is_ascii c = true -> forallb is_ascii (repeat c n) = true.
Proof. intros H. induction n; cbn [repeat forallb]; [reflexivity|]. rewrite H, IHn. reflexivity. Qed.

Lemma dec_digits_aux_ascii fuel : forall n acc, forallb is_ascii acc = true ->
  forallb is_ascii (dec_digits_aux fuel n acc) = true.
Proof.
  induction fuel as [|f IH]; intros n acc H; cbn [dec_digits_aux]; [exact H|].
  assert (H' : forallb is_ascii ((48 + n mod 10) :: acc) = true).
  { cbn [forallb]. rewrite H. unfold is_ascii. lia. }
  destruct (n <? 10); [exact H' | apply IH; exact H'].
Qed.

Lemma str_of_N_ascii n : forallb is_ascii (str_of_N n) = true.
Proof. unfold str_of_N. apply dec_digits_aux_ascii. reflexivity. Qed.

Lemma zfill_ascii k s : forallb is_ascii s = true -> forallb is_ascii (zfill k s) = true.
Proof.
  intros H. unfold zfill, rjust. rewrite forallb_app, H, repeat_ascii; reflexivity.
Qed.

Lemma zfill_length k s : (k <= length (zfill k s))%nat.
Proof. unfold zfill, rjust. rewrite app_length, repeat_length. lia. Qed.

Lemma to_bytes_be_inv k v b : to_bytes_be k v = Ok b -> bytes_ok b = true /\ length b = k.
Proof.
  unfold to_bytes_be. destruct (v <? 256 ^ N.of_nat k); [|discriminate]. intros [= <-].
  split; [apply be_bytes_bytes_ok | apply be_bytes_len].
Qed.

Lemma to_bytes_be_1 v : v <= 255 -> to_bytes_be 1 v = Ok (be_bytes 1 v).
Proof. intros H. apply to_bytes_be_ok. change (256 ^ N.of_nat 1) with 256. lia. Qed.

(* ------------------------------------------------------------------ *)
(* Blocks.dump                                                          *)
Lemma dump_items_safe d : safe (dump_items d).
Proof.
  induction d as [|[id data] r IH]; cbn [dump_items]; [exact I|].
  apply safe_bind.
  - destruct (lenN data + 4 <=? 255) eqn:L.
    + rewrite to_bytes_be_1 by lia. exact I.
    + destruct (to_bytes_be 2 (lenN data + 10)); exact I.
  - intros lp _. apply safe_bind; [exact IH|]. intros; exact I.
Qed.

Lemma dump_items_ascii d : Forall entry_wf d -> forall t, dump_items d = Ok t ->
  forallb is_ascii t = true.
Proof.
  induction d as [|[id data] r IH]; intros F t E; cbn [dump_items] in E.
  - injection E as <-. reflexivity.
  - inversion F as [|? ? (_ & I1 & P1) F']; subst. cbn [fst snd] in *.
    apply bind_ok_inv in E as (lp & Elp & E). apply bind_ok_inv in E as (t' & Et & E).
    injection E as <-.
    assert (Alp : forallb is_ascii lp = true).
    { destruct (lenN data + 4 <=? 255).
      - apply bind_ok_inv in Elp as (b & Eb & Elp). injection Elp as <-.
        apply hex_upper_ascii. apply (to_bytes_be_inv _ _ _ Eb).
      - destruct (to_bytes_be 2 (lenN data + 10)) as [b|] eqn:Eb; [|discriminate].
        injection Elp as <-. cbn [app forallb].
        rewrite (hex_upper_ascii b) by apply (to_bytes_be_inv _ _ _ Eb). reflexivity. }
    rewrite !forallb_app, Alp, (alnum_ascii _ I1), (print_ascii _ P1), (IH F' t' Et). reflexivity.
Qed.

Lemma blocks_dump_safe abs d : (0 < abs <= 16)%nat -> safe (blocks_dump abs d).
Proof.
  intros Habs. unfold blocks_dump. apply safe_bind; [apply dump_items_safe|]. intros blocks _.
  destruct (negb (length blocks mod abs =? 0)%nat).
  - rewrite to_bytes_be_1 by lia. cbn [bind]. destruct (99 <? _)%nat; exact I.
  - cbn [bind]. destruct (99 <? _)%nat; exact I.
Qed.

Lemma ok_pair_snd {A B} (a c : A) (b d : B) : @Ok (A * B) (a, b) = Ok (c, d) -> b = d.
Proof. congruence. Qed.

Lemma ok_inj {A} (a b : A) : Ok a = Ok b -> a = b.
Proof. congruence. Qed.

Lemma blocks_dump_ascii abs d n t : (0 < abs <= 16)%nat -> Forall entry_wf d ->
  blocks_dump abs d = Ok (n, t) -> forallb is_ascii t = true.
Proof.
  intros Habs F E. unfold blocks_dump in E. apply bind_ok_inv in E as (blocks & Eb & E).
  pose proof (dump_items_ascii d F blocks Eb) as Ab.
  destruct (negb (length blocks mod abs =? 0)%nat).
  - rewrite to_bytes_be_1 in E by lia. cbn [bind] in E.
    destruct (99 <? _)%nat; [discriminate|]. apply ok_pair_snd in E. rewrite <- E.
    rewrite !forallb_app, Ab, hex_upper_ascii by apply be_bytes_bytes_ok.
    rewrite repeat_ascii by reflexivity. reflexivity.
  - cbn [bind] in E. destruct (99 <? _)%nat; [discriminate|]. apply ok_pair_snd in E. rewrite <- E.
    rewrite app_nil_r. exact Ab.
Qed.

(* ------------------------------------------------------------------ *)
(* Header.dump / Header.__str__                                         *)
Lemma version_ascii v : version_supported v = true -> forallb is_ascii v = true /\ length v = 1%nat.
Proof. intros H. destruct (version_cases v H) as [ -> | [ -> | [ -> | -> ] ] ]; split; reflexivity. Qed.

Lemma field_ascii n s : field_ok n s -> forallb is_ascii s = true.
Proof. intros [_ H]. apply alnum_ascii. exact H. Qed.

Lemma header_text_ascii h len bn bs : header_wf h -> forallb is_ascii bs = true ->
  forallb is_ascii (header_text h len bn bs) = true /\ (8 <= length (header_text h len bn bs))%nat.
Proof.
  intros (V & F1 & F2 & F3 & F4 & F5 & F6 & _) Hb. unfold header_text.
  destruct (version_ascii _ V) as [VA VL]. split.
  - rewrite !forallb_app, VA, !zfill_ascii by apply str_of_N_ascii.
    rewrite (field_ascii _ _ F1), (field_ascii _ _ F2), (field_ascii _ _ F3), (field_ascii _ _ F4),
      (field_ascii _ _ F5), (field_ascii _ _ F6), Hb. reflexivity.
  - rewrite !app_length, VL. pose proof (zfill_length 4 (str_of_N len)).
    destruct F1 as [L1 _]. destruct F2 as [L2 _]. lia.
Qed.

Lemma header_str_safe h : version_supported (version_id h) = true -> safe (header_str h).
Proof.
  intros V. unfold header_str.
  destruct (version_cases _ V) as [E|[E|[E|E]]]; rewrite E; cbn [algo_block_size bind];
    (apply safe_bind; [apply blocks_dump_safe; lia|]); intros [bn bs] _; exact I.
Qed.

Lemma header_dump_safe h kl : version_supported (version_id h) = true -> safe (header_dump h kl).
Proof.
  intros V. unfold header_dump.
  destruct (version_cases _ V) as [E|[E|[E|E]]]; rewrite E; cbn [algo_block_size bind];
    (apply safe_bind; [apply blocks_dump_safe; lia|]); intros [bn bs] _;
    cbn [key_block_mac_len bind]; destruct (9999 <? _); exact I.
Qed.

Lemma header_dump_ok h kl hs : header_wf h -> header_dump h kl = Ok hs ->
  forallb is_ascii hs = true /\ (8 <= length hs)%nat /\ kl <= 4989.
Proof.
  intros W E. pose proof W as (V & _ & _ & _ & _ & _ & _ & FB). unfold header_dump in E.
  destruct (version_cases _ V) as [Ev|[Ev|[Ev|Ev]]]; rewrite Ev in E;
    cbn [algo_block_size bind] in E;
    apply bind_ok_inv in E as ([bn bs] & Eb & E);
    cbn [key_block_mac_len bind] in E;
    (match type of E with (if ?c then _ else _) = _ => destruct c eqn:K; [discriminate|] end);
    (assert (Ab : forallb is_ascii bs = true) by (eapply blocks_dump_ascii; [|exact FB|exact Eb]; lia));
    apply ok_inj in E; rewrite <- E;
    (match goal with |- forallb is_ascii (header_text h ?len bn bs) = true /\ _ =>
       destruct (header_text_ascii h len bn bs W Ab) as [A L] end);
    (split; [exact A|]; split; [exact L|]; lia).
Qed.

(* ------------------------------------------------------------------ *)
(* the three wrap methods                                               *)
Section Wrap.
  Variable cd ca : cipher.
  Hypothesis CO : ciphers_ok cd ca.

  Let Hd : cipher_ok cd := cd_ok cd ca CO.
  Let Ha : cipher_ok ca := ca_ok cd ca CO.

  Lemma key_len_prefix_ok key : lenN key * 8 < 65536 ->
    exists lp, key_len_prefix key = Ok lp /\ length lp = 2%nat.
  Proof.
    intros H. unfold key_len_prefix. rewrite to_bytes_be_ok by (change (256 ^ N.of_nat 2) with 65536; exact H).
    eexists. split; [reflexivity | apply be_bytes_len].
  Qed.

  Lemma ckd_len n (lp key tape : bytes) extra : (n = 8 \/ n = 16)%nat -> length lp = 2%nat ->
    length tape = (n - (2 + length key + extra) mod n + extra)%nat ->
    (0 < length (lp ++ key ++ tape))%nat /\ (length (lp ++ key ++ tape) mod n = 0)%nat.
  Proof. intros [-> | ->] L2 LT; rewrite !app_length, L2, LT; split; lia. Qed.

  Lemma c_wrap_safe kbpk hs key extra tape :
    forallb is_ascii hs = true -> (8 <= length hs)%nat -> lenN key * 8 < 65536 ->
    safe_or_badtape (length tape <> (8 - (2 + length key + extra) mod 8 + extra)%nat)
                    (c_wrap cd ca kbpk hs key extra tape).
  Proof.
    intros Hh Hl Hkey. unfold c_wrap.
    destruct (mem_nat (length kbpk) [8; 16; 24]%nat) eqn:M; cbn [negb]; [|left; exact I].
    apply mem_nat_in in M.
    destruct (c_derive_len kbpk) as [Le La]. destruct (c_derive kbpk) as [kbek kbak]. cbn [fst snd] in *.
    destruct (Nat.eqb_spec (length tape) (8 - (2 + length key + extra) mod 8 + extra)) as [LT|LT];
      cbn [negb]; [|right; split; [exact LT | reflexivity]].
    left.
    assert (Vk : valid_key cd kbek = true) by (apply (valid_cd cd ca CO); rewrite Le; exact M).
    assert (Va : valid_key cd kbak = true) by (apply (valid_cd cd ca CO); rewrite La; exact M).
    destruct (key_len_prefix_ok key Hkey) as (lp & Elp & Llp). rewrite Elp. cbn [bind].
    rewrite (encode_ascii_ok hs Hh). cbn [bind].
    destruct (ckd_len 8 lp key tape extra) as [P1 P2]; try assumption; [lia|].
    destruct (encrypt_cbc_ok cd Hd kbek (firstn 8 hs) (lp ++ key ++ tape) Vk) as (ct & Ec & _);
      rewrite ?(cd_bs cd ca CO); try assumption.
    { apply firstn_length_le. exact Hl. }
    rewrite Ec. cbn [bind].
    destruct (c_generate_mac_ok cd ca CO kbak hs ct Va Hh) as (m & Em & _). rewrite Em. exact I.
  Qed.

  Lemma b_wrap_safe kbpk hs key extra tape :
    forallb is_ascii hs = true -> lenN key * 8 < 65536 ->
    safe_or_badtape (length tape <> (8 - (2 + length key + extra) mod 8 + extra)%nat)
                    (b_wrap cd ca kbpk hs key extra tape).
  Proof.
    intros Hh Hkey. unfold b_wrap.
    destruct (mem_nat (length kbpk) [16; 24]%nat) eqn:M; cbn [negb]; [|left; exact I].
    apply mem_nat_in in M.
    destruct (b_derive_ok cd ca CO kbpk M) as (kbek & kbak & E & Le & La). rewrite E. cbn [bind].
    destruct (Nat.eqb_spec (length tape) (8 - (2 + length key + extra) mod 8 + extra)) as [LT|LT];
      cbn [negb]; [|right; split; [exact LT | reflexivity]].
    left.
    assert (Vk : valid_key cd kbek = true) by (apply (valid_cd cd ca CO); rewrite Le; cbn in *; tauto).
    assert (Va : valid_key cd kbak = true) by (apply (valid_cd cd ca CO); rewrite La; cbn in *; tauto).
    destruct (key_len_prefix_ok key Hkey) as (lp & Elp & Llp). rewrite Elp. cbn [bind].
    destruct (b_generate_mac_ok cd ca CO kbak hs (lp ++ key ++ tape) Va Hh) as (m & Em & Lm).
    rewrite Em. cbn [bind].
    destruct (ckd_len 8 lp key tape extra) as [P1 P2]; try assumption; [lia|].
    destruct (encrypt_cbc_ok cd Hd kbek m (lp ++ key ++ tape) Vk) as (ct & Ec & _);
      rewrite ?(cd_bs cd ca CO); try assumption.
    rewrite Ec. exact I.
  Qed.

  Lemma d_wrap_safe kbpk hs key extra tape :
    forallb is_ascii hs = true -> lenN key * 8 < 65536 ->
    safe_or_badtape (length tape <> (16 - (2 + length key + extra) mod 16 + extra)%nat)
                    (d_wrap cd ca kbpk hs key extra tape).
  Proof.
    intros Hh Hkey. unfold d_wrap.
    destruct (mem_nat (length kbpk) [16; 24; 32]%nat) eqn:M; cbn [negb]; [|left; exact I].
    apply mem_nat_in in M.
    destruct (d_derive_ok cd ca CO kbpk M) as (kbek & kbak & E & Le & La). rewrite E. cbn [bind].
    destruct (Nat.eqb_spec (length tape) (16 - (2 + length key + extra) mod 16 + extra)) as [LT|LT];
      cbn [negb]; [|right; split; [exact LT | reflexivity]].
    left.
    assert (Vk : valid_key ca kbek = true) by (apply (valid_ca cd ca CO); rewrite Le; exact M).
    assert (Va : valid_key ca kbak = true) by (apply (valid_ca cd ca CO); rewrite La; exact M).
    destruct (key_len_prefix_ok key Hkey) as (lp & Elp & Llp). rewrite Elp. cbn [bind].
    destruct (d_generate_mac_ok cd ca CO kbak hs (lp ++ key ++ tape) Va Hh) as (m & Em & Lm).
    rewrite Em. cbn [bind].
    destruct (ckd_len 16 lp key tape extra) as [P1 P2]; try assumption; [lia|].
    destruct (encrypt_cbc_ok ca Ha kbek m (lp ++ key ++ tape) Vk) as (ct & Ec & _);
      rewrite ?(ca_bs cd ca CO); try assumption.
    rewrite Ec. exact I.
  Qed.

  (* ---------------- KeyBlock.wrap, wrap() ---------------- *)
  Lemma masked_len_ge h key mask : lenN key <= masked_len h key mask.
  Proof. unfold masked_len. destruct mask; lia. Qed.

  (* number of random bytes the wrap draws: pad to the cipher block + key masking *)
  Definition wrap_tape_len (h : header) (key : bytes) (mask : option Z) : nat :=
    let extra := (N.to_nat (masked_len h key mask) - length key)%nat in
    let abs := match version_id h with [68] => 16%nat | _ => 8%nat end in
    (abs - (2 + length key + extra) mod abs + extra)%nat.

  Theorem kb_wrap_sharp kbpk h key mask tape : header_wf h ->
    safe_or_badtape (length tape <> wrap_tape_len h key mask) (kb_wrap cd ca kbpk h key mask tape).
  Proof.
    intros W. pose proof W as (V & _). unfold kb_wrap, wrap_tape_len.
    pose proof (masked_len_ge h key mask) as MG.
    pose proof (header_dump_safe h (masked_len h key mask) V) as DS.
    pose proof (header_dump_ok h (masked_len h key mask)) as DO.
    destruct (version_cases _ V) as [E|[E|[E|E]]]; rewrite E; cbn [wrap_dispatch bind];
      (apply badtape_bind; [exact DS|]); intros hs Ehs;
      destruct (DO hs W Ehs) as (A & L & K).
    - apply c_wrap_safe; [exact A | exact L | lia].
    - apply b_wrap_safe; [exact A | lia].
    - apply c_wrap_safe; [exact A | exact L | lia].
    - apply d_wrap_safe; [exact A | lia].
  Qed.

  Theorem kb_wrap_safe kbpk h key mask tape : header_wf h ->
    safe_or_tape (kb_wrap cd ca kbpk h key mask tape).
  Proof. intros W. eapply badtape_weaken. apply kb_wrap_sharp. exact W. Qed.

  Theorem kb_wrap_good_tape kbpk h key mask tape : header_wf h ->
    length tape = wrap_tape_len h key mask -> safe (kb_wrap cd ca kbpk h key mask tape).
  Proof. intros W L. eapply badtape_good; [apply kb_wrap_sharp; exact W|]. intros N. exact (N L). Qed.

  Theorem kb_wrap_ok_header kbpk h key mask tape : header_ok h ->
    safe_or_tape (kb_wrap cd ca kbpk h key mask tape).
  Proof. intros H. apply kb_wrap_safe. apply header_ok_wf. exact H. Qed.

  Theorem kb_wrap_ok_header_good_tape kbpk h key mask tape : header_ok h ->
    length tape = wrap_tape_len h key mask -> safe (kb_wrap cd ca kbpk h key mask tape).
  Proof. intros H. apply kb_wrap_good_tape. apply header_ok_wf. exact H. Qed.

  Theorem wrap_str_sharp kbpk hs key mask tape :
    safe_or_badtape (length tape <> wrap_tape_len (fst (header_load default_header hs)) key mask)
                    (wrap_str cd ca kbpk hs key mask tape).
  Proof.
    unfold wrap_str. pose proof (header_load_safe default_header hs) as LS.
    pose proof (header_load_ok default_header hs) as LO.
    destruct (header_load default_header hs) as [h r]. cbn [fst snd] in *.
    destruct r as [n|e]; [|left; exact LS]. cbn [bind].
    apply kb_wrap_sharp. apply (LO n eq_refl).
  Qed.

  Theorem wrap_str_safe kbpk hs key mask tape :
    safe_or_tape (wrap_str cd ca kbpk hs key mask tape).
  Proof. eapply badtape_weaken. apply wrap_str_sharp. Qed.

  Theorem wrap_str_good_tape kbpk hs key mask tape :
    length tape = wrap_tape_len (fst (header_load default_header hs)) key mask ->
    safe (wrap_str cd ca kbpk hs key mask tape).
  Proof. intros L. eapply badtape_good; [apply wrap_str_sharp|]. intros N. exact (N L). Qed.

  (* with a tape of the length the wrap draws, the marker cannot occur *)
  Lemma safe_or_tape_ok {A} (r : res A) : safe_or_tape r -> r <> Err (Crash CType) -> safe r.
  Proof. intros [H|H] N; [exact H | contradiction]. Qed.

  (* ---------------- objects: invariants of every operation ---------------- *)
  Lemma set_field_wf h f v h' : header_wf h -> set_field h f v = Ok h' -> header_wf h'.
  Proof.
    intros (V & F1 & F2 & F3 & F4 & F5 & F6 & FB) E. destruct f; cbn [set_field field_len] in E.
    - destruct (version_supported v) eqn:Vv; [|discriminate]. injection E as <-. wf_done.
    - destruct (negb _ || negb _) eqn:C; [discriminate|]. apply field_check in C. injection E as <-. wf_done.
    - destruct (negb _ || negb _) eqn:C; [discriminate|]. apply field_check in C. injection E as <-. wf_done.
    - destruct (negb _ || negb _) eqn:C; [discriminate|]. apply field_check in C. injection E as <-. wf_done.
    - destruct (negb _ || negb _) eqn:C; [discriminate|]. apply field_check in C. injection E as <-. wf_done.
    - destruct (negb _ || negb _) eqn:C; [discriminate|]. apply field_check in C. injection E as <-. wf_done.
  Qed.

  Lemma set_field_safe h f v : safe (set_field h f v).
  Proof.
    destruct f; cbn [set_field field_len];
      [destruct (version_supported v); exact I | destruct (negb _ || negb _); exact I ..].
  Qed.

  Lemma set_blocks_wf h d : header_wf h -> Forall entry_wf d -> header_wf (set_blocks h d).
  Proof. intros (V & F1 & F2 & F3 & F4 & F5 & F6 & FB) Fd. unfold set_blocks. wf_done. Qed.

  Theorem step_wf st o : header_wf (st_header st) ->
    header_wf (st_header (fst (step cd ca st o))).
  Proof.
    intros W. destruct o as [s|s|key mask tape|f v|id data|id|]; cbn [step].
    - pose proof (header_load_wf (st_header st) s W) as H.
      destruct (header_load (st_header st) s). exact H.
    - pose proof (header_load_wf (st_header st) s W) as H.
      rewrite <- (kb_unwrap_fst cd ca (st_kbpk st)) in H.
      destruct (kb_unwrap cd ca (st_kbpk st) (st_header st) s). exact H.
    - exact W.
    - destruct (set_field (st_header st) f v) as [h'|e] eqn:E; [|exact W].
      cbn [fst st_header]. eapply set_field_wf; eassumption.
    - destruct (blocks_setitem_spec id data (blocks (st_header st))) as [E|(d & E & _ & _ & _ & F)];
        rewrite E; [exact W|]. cbn [fst st_header]. apply set_blocks_wf; [exact W|].
      apply F. apply W.
    - unfold dict_del. destruct (dict_mem id (blocks (st_header st))); [|exact W].
      cbn [fst st_header]. apply set_blocks_wf; [exact W|]. apply dict_remove_wf. apply W.
    - exact W.
  Qed.

  Theorem run_wf st ops : header_wf (st_header st) ->
    header_wf (st_header (fst (run cd ca st ops))).
  Proof.
    intros W. unfold run.
    assert (G : forall acc, header_wf (st_header (fst acc)) ->
      header_wf (st_header (fst (fold_left (fun acc o => let '(s, outs) := acc in
         let '(s', out) := step cd ca s o in (s', outs ++ [out])) ops acc)))).
    { induction ops as [|o ops IH]; intros acc Hacc; [exact Hacc|]. cbn [fold_left]. apply IH.
      destruct acc as [s outs]. cbn [fst] in Hacc. pose proof (step_wf s o Hacc) as H.
      destruct (step cd ca s o). exact H. }
    apply G. exact W.
  Qed.

  Definition out_safe (o : outcome) : Prop :=
    match o with
    | OutErr HeaderError | OutErr KeyBlockError => True
    | OutErr _ => False
    | _ => True
    end.

  (* every operation of the property (load, unwrap, wrap) and also str() and the
     field / block setters, on a well formed object.  [del blocks[id]] is left
     out: KeyError for an absent id is dict behaviour, not parsing. *)
  Theorem step_safe st o : header_wf (st_header st) ->
    match o with
    | OpDelBlock _ => True
    | OpWrap _ _ _ => out_safe (snd (step cd ca st o)) \/ snd (step cd ca st o) = OutErr (Crash CType)
    | _ => out_safe (snd (step cd ca st o))
    end.
  Proof.
    intros W. destruct o as [s|s|key mask tape|f v|id data|id|]; cbn [step].
    - pose proof (header_load_safe (st_header st) s) as H.
      destruct (header_load (st_header st) s) as [h [n|e]]; [exact I|]. cbn [snd] in *.
      destruct e as [| | |k]; try exact I; exact H.
    - pose proof (kb_unwrap_safe cd ca CO (st_kbpk st) (st_header st) s) as H.
      destruct (kb_unwrap cd ca (st_kbpk st) (st_header st) s) as [h [n|e]]; [exact I|]. cbn [snd] in *.
      destruct e as [| | |k]; try exact I; exact H.
    - cbn [snd]. destruct (kb_wrap_safe (st_kbpk st) (st_header st) key mask tape W) as [H|H].
      + left. destruct (kb_wrap cd ca (st_kbpk st) (st_header st) key mask tape) as [x|e]; [exact I|].
        destruct e as [| | |k]; try exact I; exact H.
      + right. rewrite H. reflexivity.
    - pose proof (set_field_safe (st_header st) f v) as H.
      destruct (set_field (st_header st) f v) as [h|e]; [exact I|]. cbn [snd].
      destruct e as [| | |k]; try exact I; exact H.
    - destruct (blocks_setitem_spec id data (blocks (st_header st))) as [E|(d & E & _)]; rewrite E; exact I.
    - exact I.
    - cbn [snd]. pose proof (header_str_safe (st_header st) (proj1 W)) as H.
      destruct (header_str (st_header st)) as [x|e]; [exact I|].
      destruct e as [| | |k]; try exact I; exact H.
  Qed.
End Wrap.
