(* Triple DES built from a lawful single DES is a lawful cipher. *)
From Coq Require Import Lia.
From Psec Require Import Lib.Base Cipher.Cipher.

Lemma tdes_valid_key_cases k : tdes_valid_key k = true ->
  length k = 8%nat \/ length k = 16%nat \/ length k = 24%nat.
Proof.
  unfold tdes_valid_key, mem_nat. cbn [existsb]. rewrite !orb_true_iff, !Nat.eqb_eq. lia.
Qed.

Lemma tdes_keys_len k : tdes_valid_key k = true ->
  let '(k1, k2, k3) := tdes_keys k in length k1 = 8%nat /\ length k2 = 8%nat /\ length k3 = 8%nat.
Proof.
  intros H. apply tdes_valid_key_cases in H. unfold tdes_keys.
  destruct H as [H|[H|H]]; rewrite H.
  - rewrite firstn_length. lia.
  - rewrite firstn_length, skipn_length. lia.
  - rewrite !firstn_length, !skipn_length. repeat split; lia.
Qed.

Theorem tdes_ok d : des_ok d -> cipher_ok (tdes d).
Proof.
  intros [EB DB DE ED]. constructor; cbn [bs valid_key enc dec tdes]; unfold block_ok; cbn [bs tdes].
  - lia.
  - intros k b Hk Hb. pose proof (tdes_keys_len k Hk) as L. destruct (tdes_keys k) as [[k1 k2] k3].
    destruct L as (L1 & L2 & L3). change (block8_ok (des_enc d k3 (des_dec d k2 (des_enc d k1 b)))). auto 10.
  - intros k b Hk Hb. pose proof (tdes_keys_len k Hk) as L. destruct (tdes_keys k) as [[k1 k2] k3].
    destruct L as (L1 & L2 & L3). change (block8_ok (des_dec d k1 (des_enc d k2 (des_dec d k3 b)))). auto 10.
  - intros k b Hk Hb. pose proof (tdes_keys_len k Hk) as L. destruct (tdes_keys k) as [[k1 k2] k3].
    destruct L as (L1 & L2 & L3).
    rewrite DE by auto 10. rewrite ED by auto 10. apply DE; auto.
  - intros k b Hk Hb. pose proof (tdes_keys_len k Hk) as L. destruct (tdes_keys k) as [[k1 k2] k3].
    destruct L as (L1 & L2 & L3).
    rewrite ED by auto 10. rewrite DE by auto 10. apply ED; auto.
Qed.

(* a single-length key makes Triple DES collapse to single DES *)
Theorem tdes_single d k b : des_ok d -> length k = 8%nat -> block8_ok b ->
  enc (tdes d) k b = des_enc d k b /\ dec (tdes d) k b = des_dec d k b.
Proof.
  intros [EB DB DE ED] Hk Hb. cbn [enc dec tdes]. unfold tdes_keys. rewrite Hk.
  rewrite firstn_all2 by lia. split.
  - rewrite DE by auto. reflexivity.
  - rewrite ED by auto 10. reflexivity.
Qed.
