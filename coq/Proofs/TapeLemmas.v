(* C14 (model part): random fill and padding are exact functions of the explicit
   random tape and expose it bijectively.
   - format 3: the fill nibbles are the used prefix of the symbol tape, verbatim;
   - format 4: the trailing 8 bytes are the tape, verbatim;
   - TR-31 wraps (A/C, B, D): the key data that is encrypted is
     length prefix ++ key ++ tape, and CBC decryption gives it back. *)
From Coq Require Import Lia ZifyBool ZifyNat ZifyN.
From Psec Require Import Lib.Base Cipher.Cipher Cipher.Toy Model.Tools Model.Mac Model.Pinblock
  Model.Tr31 Proofs.XorLemmas Proofs.PadLemmas Proofs.DomainLemmas Proofs.DomainPinblock.
Ltac Zify.zify_post_hook ::= Z.to_euclidean_division_equations.
Open Scope N_scope.

(* ------------------------------------------------------------------ *)
(* hex text <-> bytes                                                   *)
Lemma hex_upper_cons x t :
  hex_upper (x :: t) = hexdigit_upper (x / 16) :: hexdigit_upper (x mod 16) :: hex_upper t.
Proof. reflexivity. Qed.

Lemma hexdigit_upper_inj a b : hexdigit_upper a = hexdigit_upper b -> a = b.
Proof.
  unfold hexdigit_upper. destruct (N.ltb_spec a 10), (N.ltb_spec b 10); lia.
Qed.

Lemma hex_upper_inj : forall a b, hex_upper a = hex_upper b -> a = b.
Proof.
  induction a as [|x a IH]; intros [|y b] H; try reflexivity; try discriminate.
  rewrite !hex_upper_cons in H. injection H as H1 H2 H3.
  apply hexdigit_upper_inj in H1. apply hexdigit_upper_inj in H2.
  f_equal; [lia|auto].
Qed.

Lemma unhex_hexdigit_upper v : v < 16 -> unhex_digit (hexdigit_upper v) = Some v.
Proof.
  intros H. unfold hexdigit_upper, unhex_digit, is_digit.
  destruct (N.ltb_spec v 10).
  - destruct ((48 <=? 48 + v) && (48 + v <=? 57)) eqn:E; [f_equal; lia|lia].
  - destruct ((48 <=? 55 + v) && (55 + v <=? 57)) eqn:E; [lia|].
    destruct ((65 <=? 55 + v) && (55 + v <=? 70)) eqn:E2; [f_equal; lia|lia].
Qed.

Lemma unhex_uhex c : uhex_char c ->
  exists v, unhex_digit c = Some v /\ v < 16 /\ hexdigit_upper v = c.
Proof.
  unfold uhex_char, unhex_digit, is_digit, hexdigit_upper. intros H.
  destruct ((48 <=? c) && (c <=? 57)) eqn:E1.
  - exists (c - 48). split; [reflexivity|]. split; [lia|].
    destruct (N.ltb_spec (c - 48) 10); lia.
  - destruct ((65 <=? c) && (c <=? 70)) eqn:E2; [|lia].
    exists (c - 55). split; [reflexivity|]. split; [lia|].
    destruct (N.ltb_spec (c - 55) 10); lia.
Qed.

(* a2b_hex(b.hex().upper()) = b *)
Lemma a2b_hex_hex_upper t : bytes_ok t = true -> a2b_hex (hex_upper t) = Ok t.
Proof.
  induction t as [|x t IH]; intros B; [reflexivity|].
  apply bytes_ok_cons in B as [Hx Ht]. rewrite hex_upper_cons. cbn [a2b_hex].
  rewrite !unhex_hexdigit_upper by lia. rewrite (IH Ht). cbn [bind]. do 2 f_equal. lia.
Qed.

(* a2b_hex(s).hex().upper() = s  for upper-case hex text *)
Lemma hex_upper_a2b_hex n : forall s b, length s = (2 * n)%nat -> uhex_str s ->
  a2b_hex s = Ok b -> hex_upper b = s.
Proof.
  induction n as [|n IH]; intros s b L H E.
  - destruct s; [|discriminate]. injection E as <-. reflexivity.
  - destruct s as [|c [|d r]]; try (cbn in L; lia).
    inversion H as [|? ? Hc H1]; subst. inversion H1 as [|? ? Hd Hr]; subst.
    destruct (unhex_uhex c Hc) as (h & Eh & Bh & Ch).
    destruct (unhex_uhex d Hd) as (l & El & Bl & Cl).
    cbn [a2b_hex] in E. rewrite Eh, El in E.
    destruct (a2b_hex r) as [t|] eqn:Et; [|discriminate]. cbn [bind] in E.
    assert (Eb : 16 * h + l :: t = b) by (injection E as E; exact E). subst b.
    rewrite hex_upper_cons. rewrite (IH r t) by (try assumption; try reflexivity; cbn in L; lia).
    replace ((16 * h + l) / 16) with h by lia. replace ((16 * h + l) mod 16) with l by lia.
    rewrite Ch, Cl. reflexivity.
Qed.

Lemma a2b_hex_app n : forall s1 b1, length s1 = (2 * n)%nat -> a2b_hex s1 = Ok b1 ->
  forall s2 b2, a2b_hex s2 = Ok b2 -> a2b_hex (s1 ++ s2) = Ok (b1 ++ b2).
Proof.
  induction n as [|n IH]; intros s1 b1 L E s2 b2 E2.
  - destruct s1; [|discriminate]. injection E as <-. exact E2.
  - destruct s1 as [|c [|d r]]; try (cbn in L; lia).
    cbn [a2b_hex app] in *.
    destruct (unhex_digit c); [|discriminate]. destruct (unhex_digit d); [|discriminate].
    destruct (a2b_hex r) as [t|] eqn:Et; [|discriminate]. cbn [bind] in E. injection E as <-.
    rewrite (IH r t ltac:(cbn in L; lia) Et s2 b2 E2). reflexivity.
Qed.

Lemma skipn_app_exact {A} (a b : list A) : skipn (length a) (a ++ b) = b.
Proof. induction a; cbn [length skipn app]; auto. Qed.
Lemma firstn_app_exact {A} (a b : list A) : firstn (length a) (a ++ b) = a.
Proof. induction a; cbn [length firstn app]; [reflexivity|]. f_equal. assumption. Qed.

Lemma firstn_app_len {A} n (a b : list A) : length a = n -> firstn n (a ++ b) = a.
Proof. intros <-. apply firstn_app_exact. Qed.
Lemma skipn_app_len {A} n (a b : list A) : length a = n -> skipn n (a ++ b) = b.
Proof. intros <-. apply skipn_app_exact. Qed.

(* ------------------------------------------------------------------ *)
(* format 3                                                             *)
Theorem format3_alphabet pin pan choices : dom_pin pin -> dom_pan13 pan ->
  length choices = 10%nat -> af_str choices ->
  exists block pb,
    encode_pinblock_iso_3 pin pan choices = Ok block /\ pan_block pan = Ok pb /\
    length block = 8%nat /\
    hex_upper (py_xor block pb) =
      51 :: hexdigit_upper (lenN pin) :: pin ++ firstn (14 - length pin) choices /\
    skipn (2 + length pin) (hex_upper (py_xor block pb)) = firstn (14 - length pin) choices /\
    length (firstn (14 - length pin) choices) = (14 - length pin)%nat /\
    af_str (skipn (2 + length pin) (hex_upper (py_xor block pb))).
Proof.
  intros Hpin Hpan Lc Hc.
  destruct (encode_pinblock_iso_3_shape pin pan choices Hpin Hpan Lc Hc)
    as (body & p & Eb & Lb & Bb & Ep & Lp & Bp & E).
  exists (py_xor (lenN pin + 48 :: body) (0 :: 0 :: p)), (0 :: 0 :: p).
  assert (Epb : pan_block pan = Ok (0 :: 0 :: p)) by (unfold pan_block; rewrite Ep; reflexivity).
  pose proof Hpin as [Lpin Dpin].
  assert (V : hex_upper (py_xor (py_xor (lenN pin + 48 :: body) (0 :: 0 :: p)) (0 :: 0 :: p)) =
              51 :: hexdigit_upper (lenN pin) :: pin ++ firstn (14 - length pin) choices).
  { rewrite py_xor_involutive.
    - rewrite hex_upper_cons.
      rewrite (hex_upper_a2b_hex 7 (pin ++ firstn (14 - length pin) choices) body); try assumption.
      + replace ((lenN pin + 48) / 16) with 3 by (unfold lenN; lia).
        replace ((lenN pin + 48) mod 16) with (lenN pin) by (unfold lenN; lia). reflexivity.
      + rewrite app_length, firstn_length. lia.
      + apply Forall_app. split; [apply dec_uhex; assumption|].
        apply af_uhex, Forall_firstn_. assumption.
    - apply bytes_ok_cons. split; [unfold lenN; lia|assumption].
    - apply bytes_ok_cons. split; [lia|]. apply bytes_ok_cons. split; [lia|assumption].
    - cbn [length]. lia. }
  split; [assumption|]. split; [assumption|]. split; [rewrite py_xor_length; cbn [length]; lia|].
  split; [assumption|].
  assert (S : skipn (2 + length pin)
                (hex_upper (py_xor (py_xor (lenN pin + 48 :: body) (0 :: 0 :: p)) (0 :: 0 :: p))) =
              firstn (14 - length pin) choices).
  { rewrite V. cbn [plus skipn]. apply skipn_app_exact. }
  split; [assumption|]. split; [rewrite firstn_length; lia|].
  rewrite S. apply Forall_firstn_. assumption.
Qed.

(* symbols beyond the first 14 - len(pin) are not used: holds for all arguments *)
Theorem format3_unused_suffix pin pan c1 c2 :
  firstn (14 - length pin) c1 = firstn (14 - length pin) c2 ->
  encode_pinblock_iso_3 pin pan c1 = encode_pinblock_iso_3 pin pan c2.
Proof. intros H. unfold encode_pinblock_iso_3. rewrite H. reflexivity. Qed.

(* ... and the used prefix is recovered from the block *)
Theorem format3_prefix_recovered pin pan c1 c2 : dom_pin pin -> dom_pan13 pan ->
  length c1 = 10%nat -> af_str c1 -> length c2 = 10%nat -> af_str c2 ->
  encode_pinblock_iso_3 pin pan c1 = encode_pinblock_iso_3 pin pan c2 ->
  firstn (14 - length pin) c1 = firstn (14 - length pin) c2.
Proof.
  intros Hpin Hpan L1 A1 L2 A2 E.
  destruct (format3_alphabet pin pan c1 Hpin Hpan L1 A1) as (b1 & pb1 & E1 & P1 & _ & _ & S1 & _).
  destruct (format3_alphabet pin pan c2 Hpin Hpan L2 A2) as (b2 & pb2 & E2 & P2 & _ & _ & S2 & _).
  rewrite E1, E2 in E. injection E as <-. rewrite P1 in P2. injection P2 as <-.
  rewrite <- S1, <- S2. reflexivity.
Qed.

Theorem format3_tape_injective pin pan c1 c2 : dom_pin pin -> dom_pan13 pan ->
  length c1 = 10%nat -> af_str c1 -> length c2 = 10%nat -> af_str c2 ->
  (firstn (14 - length pin) c1 = firstn (14 - length pin) c2 ->
     encode_pinblock_iso_3 pin pan c1 = encode_pinblock_iso_3 pin pan c2) /\
  (firstn (14 - length pin) c1 <> firstn (14 - length pin) c2 ->
     encode_pinblock_iso_3 pin pan c1 <> encode_pinblock_iso_3 pin pan c2).
Proof.
  intros Hpin Hpan L1 A1 L2 A2. split.
  - apply format3_unused_suffix.
  - intros N E. apply N. eapply format3_prefix_recovered; eassumption.
Qed.

(* ------------------------------------------------------------------ *)
(* format 4                                                             *)
Lemma encode_pin_field_iso_4_split pin tape f : bytes_ok tape = true ->
  encode_pin_field_iso_4 pin tape = Ok f ->
  exists head,
    a2b_hex (52 :: hexdigit_lower (lenN pin mod 16) :: pin ++ repeat chA (14 - length pin)) = Ok head /\
    length head = 8%nat /\ f = head ++ tape.
Proof.
  intros Bt E.
  destruct (dom_pin_dec pin) as [Hpin|Hpin].
  2:{ rewrite encode_pin_field_iso_4_reject in E by assumption. discriminate. }
  destruct (encode_pin_field_iso_4_shape pin tape Hpin Bt) as (f' & E' & Ea & _).
  rewrite E in E'. injection E' as <-.
  set (hs := 52 :: hexdigit_lower (lenN pin mod 16) :: pin ++ repeat chA (14 - length pin)).
  assert (Lhs : length hs = (2 * 8)%nat).
  { destruct Hpin as [L _]. unfold hs. cbn [length]. rewrite app_length, repeat_length. lia. }
  destruct (a2b_hex_ok 8 hs Lhs) as (head & Eh & Lh & Bh).
  - unfold hs. constructor; [unfold hex_char; lia|].
    constructor; [apply hexdigit_lower_hex; apply N.mod_lt; discriminate|].
    apply Forall_app. split; [apply dec_hex; apply Hpin|apply uhex_hex, fill_A].
  - exists head. split; [assumption|]. split; [assumption|].
    pose proof (a2b_hex_app 8 hs head Lhs Eh (hex_upper tape) tape (a2b_hex_hex_upper tape Bt))
      as Eapp.
    unfold hs in Eapp. cbn [app] in Ea, Eapp. rewrite <- app_assoc in Eapp.
    rewrite Ea in Eapp. injection Eapp as ->. reflexivity.
Qed.

Theorem format4_tail pin tape8 f : length tape8 = 8%nat -> bytes_ok tape8 = true ->
  encode_pin_field_iso_4 pin tape8 = Ok f ->
  skipn 8 f = tape8 /\ length f = 16%nat /\
  forall tape8' f', length tape8' = 8%nat -> bytes_ok tape8' = true ->
    encode_pin_field_iso_4 pin tape8' = Ok f' -> firstn 8 f' = firstn 8 f.
Proof.
  intros Lt Bt E.
  destruct (encode_pin_field_iso_4_split pin tape8 f Bt E) as (head & Eh & Lh & ->).
  split; [rewrite <- Lh; apply skipn_app_exact|].
  split; [rewrite app_length; lia|].
  intros t' f' Lt' Bt' E'.
  destruct (encode_pin_field_iso_4_split pin t' f' Bt' E') as (head' & Eh' & Lh' & ->).
  rewrite Eh in Eh'. injection Eh' as <-.
  rewrite <- Lh, !firstn_app_exact. reflexivity.
Qed.

(* the tail determines the tape and conversely: distinct tapes, distinct fields *)
Theorem format4_tape_injective pin t1 t2 f : length t1 = 8%nat -> bytes_ok t1 = true ->
  length t2 = 8%nat -> bytes_ok t2 = true ->
  encode_pin_field_iso_4 pin t1 = Ok f -> encode_pin_field_iso_4 pin t2 = Ok f -> t1 = t2.
Proof.
  intros L1 B1 L2 B2 E1 E2.
  destruct (format4_tail pin t1 f L1 B1 E1) as (S1 & _).
  destruct (format4_tail pin t2 f L2 B2 E2) as (S2 & _). congruence.
Qed.

(* ------------------------------------------------------------------ *)
(* CBC is invertible                                                    *)
Lemma bind_ok {A B} (m : res A) (f : A -> res B) v :
  bind m f = Ok v -> exists a, m = Ok a /\ f a = Ok v.
Proof. destruct m; cbn [bind]; [eauto|discriminate]. Qed.

Lemma cbc_enc_n_ok c k : cipher_ok c -> valid_key c k = true ->
  forall n iv d, length d = (n * bs c)%nat ->
  length (cbc_enc_n c k n iv d) = (n * bs c)%nat /\ bytes_ok (cbc_enc_n c k n iv d) = true.
Proof.
  intros Hc K. induction n as [|n IH]; intros iv d L; cbn [cbc_enc_n]; [split; reflexivity|].
  assert (Hb : block_ok c (enc c k (xorb (firstn (bs c) d) iv))).
  { apply (enc_block c Hc); [assumption|]. split; [|apply py_xor_bytes_ok_any].
    unfold xorb. rewrite py_xor_length, firstn_length. lia. }
  destruct Hb as [L1 B1].
  destruct (IH (enc c k (xorb (firstn (bs c) d) iv)) (skipn (bs c) d)) as [L2 B2].
  { rewrite skipn_length. lia. }
  split; [rewrite app_length; lia|]. apply bytes_ok_app. auto.
Qed.

Lemma cbc_dec_enc c k : cipher_ok c -> valid_key c k = true ->
  forall n iv d, block_ok c iv -> length d = (n * bs c)%nat -> bytes_ok d = true ->
  cbc_dec_n c k n iv (cbc_enc_n c k n iv d) = d.
Proof.
  intros Hc K. induction n as [|n IH]; intros iv d [Li Bi] L B; cbn [cbc_enc_n cbc_dec_n].
  - destruct d; [reflexivity|discriminate].
  - set (b := firstn (bs c) d).
    assert (Hb : block_ok c b).
    { split; [unfold b; rewrite firstn_length; lia|apply bytes_ok_firstn; assumption]. }
    assert (Hx : block_ok c (xorb b iv)).
    { split; [unfold xorb; rewrite py_xor_length; apply Hb|apply py_xor_bytes_ok_any]. }
    pose proof (enc_block c Hc k _ K Hx) as Hct.
    set (ct := enc c k (xorb b iv)) in *.
    destruct Hct as [Lct Bct].
    rewrite (firstn_app_len (bs c) ct _ Lct), (skipn_app_len (bs c) ct _ Lct).
    unfold ct at 1. rewrite (dec_enc c Hc k _ K Hx).
    unfold xorb at 1 2. rewrite py_xor_involutive; [|apply Hb|assumption|destruct Hb; lia].
    rewrite IH.
    + apply firstn_skipn.
    + split; assumption.
    + rewrite skipn_length. lia.
    + apply bytes_ok_skipn. assumption.
Qed.

Lemma encrypt_cbc_inv c k iv d e : encrypt_cbc c k iv d = Ok e ->
  bad_len c d = false /\ valid_key c k = true /\ length iv = bs c /\
  e = cbc_enc_n c k (nblocks c d) iv d.
Proof.
  unfold encrypt_cbc. destruct (bad_len c d); [discriminate|].
  destruct (valid_key c k); cbn [negb]; [|discriminate].
  destruct (Nat.eqb_spec (length iv) (bs c)); cbn [negb]; [|discriminate].
  intros [= <-]. auto.
Qed.

Lemma encrypt_cbc_length c k iv d e : cipher_ok c -> encrypt_cbc c k iv d = Ok e ->
  length e = length d /\ bytes_ok e = true.
Proof.
  intros Hc E. apply encrypt_cbc_inv in E as (BL & K & Li & ->).
  apply bad_len_false in BL as [L M]; [|apply (bs_pos c Hc)].
  pose proof (nblocks_exact c d (bs_pos c Hc) M) as EN.
  destruct (cbc_enc_n_ok c k Hc K (nblocks c d) iv d EN). split; [lia|assumption].
Qed.

Theorem decrypt_encrypt_cbc c k iv d e : cipher_ok c -> bytes_ok iv = true -> bytes_ok d = true ->
  encrypt_cbc c k iv d = Ok e -> decrypt_cbc c k iv e = Ok d.
Proof.
  intros Hc Bi Bd E. pose proof (encrypt_cbc_length c k iv d e Hc E) as [Le _].
  apply encrypt_cbc_inv in E as (BL & K & Li & ->).
  pose proof (bs_pos c Hc) as Hb.
  pose proof BL as BL'. apply bad_len_false in BL' as [L M]; [|assumption].
  pose proof (nblocks_exact c d Hb M) as EN.
  unfold decrypt_cbc.
  assert (BLe : bad_len c (cbc_enc_n c k (nblocks c d) iv d) = false).
  { apply bad_len_false; [assumption|]. rewrite Le. auto. }
  rewrite BLe, K. cbn [negb]. rewrite Li, Nat.eqb_refl. cbn [negb]. f_equal.
  assert (nblocks c (cbc_enc_n c k (nblocks c d) iv d) = nblocks c d) as ->.
  { unfold nblocks at 1. rewrite Le. reflexivity. }
  apply cbc_dec_enc; try assumption. split; assumption.
Qed.

Theorem encrypt_cbc_injective c k iv d1 d2 e : cipher_ok c -> bytes_ok iv = true ->
  bytes_ok d1 = true -> bytes_ok d2 = true ->
  encrypt_cbc c k iv d1 = Ok e -> encrypt_cbc c k iv d2 = Ok e -> d1 = d2.
Proof.
  intros Hc Bi B1 B2 E1 E2.
  pose proof (decrypt_encrypt_cbc c k iv d1 e Hc Bi B1 E1) as D1.
  pose proof (decrypt_encrypt_cbc c k iv d2 e Hc Bi B2 E2) as D2. congruence.
Qed.

(* a CBC-MAC value is a byte string *)
Lemma generate_cbc_mac_bytes_ok cd ca key data p mlen aes mac : cipher_ok cd -> cipher_ok ca ->
  generate_cbc_mac cd ca key data p mlen aes = Ok mac -> bytes_ok mac = true.
Proof.
  intros Hcd Hca E. unfold generate_cbc_mac in E.
  apply bind_ok in E as (d & _ & E). apply bind_ok in E as (ct & Ect & E). injection E as <-.
  apply encrypt_cbc_length in Ect as [_ B]; [|destruct aes; assumption].
  apply bytes_ok_firstn. unfold last_n. apply bytes_ok_skipn. assumption.
Qed.

Lemma encode_ascii_inv s b : encode_ascii s = Ok b -> b = s /\ bytes_ok b = true.
Proof.
  unfold encode_ascii. destruct (forallb (fun c => c <? 128) s) eqn:E; [|discriminate].
  intros [= <-]. split; [reflexivity|].
  unfold bytes_ok. rewrite forallb_forall in *. intros x Hx. specialize (E x Hx).
  unfold byte_ok. lia.
Qed.

Lemma key_len_prefix_inv key lp : key_len_prefix key = Ok lp ->
  length lp = 2%nat /\ bytes_ok lp = true.
Proof.
  unfold key_len_prefix, to_bytes_be. destruct (_ <? _); [|discriminate]. intros [= <-].
  split; [apply be_bytes_length|]. unfold be_bytes. apply bytes_ok_rev, le_bytes_bytes_ok.
Qed.

(* ------------------------------------------------------------------ *)
(* TR-31 wraps                                                          *)
(* what a wrap encrypts *)
Definition clear_key_data (lp key tape : bytes) : bytes := lp ++ key ++ tape.

Lemma clear_key_data_tape lp key tape : length lp = 2%nat ->
  skipn (2 + length key) (clear_key_data lp key tape) = tape.
Proof.
  intros L. unfold clear_key_data. rewrite app_assoc.
  replace (2 + length key)%nat with (length (lp ++ key)) by (rewrite app_length; lia).
  apply skipn_app_exact.
Qed.

(* splitting two wrap outputs with equal-length encrypted parts *)
Lemma wrap_output_split (hdr : str) e1 m1 e2 m2 : length e1 = length e2 ->
  hdr ++ hex_upper e1 ++ hex_upper m1 = hdr ++ hex_upper e2 ++ hex_upper m2 ->
  e1 = e2 /\ m1 = m2.
Proof.
  intros L E. apply app_inv_head in E.
  apply app_inv_len in E; [|rewrite !hex_upper_length; lia].
  destruct E as [E1 E2]. split; apply hex_upper_inj; assumption.
Qed.

Section Wraps.
  Variable cd : cipher.
  Variable ca : cipher.
  Hypothesis Hcd : cipher_ok cd.
  Hypothesis Hca : cipher_ok ca.

  (* ---- versions A / C: the IV is the header, independent of the tape ---- *)
  Theorem c_wrap_exposes_tape kbpk hdr key extra tape s :
    bytes_ok key = true -> bytes_ok tape = true ->
    c_wrap cd ca kbpk hdr key extra tape = Ok s ->
    length tape = (8 - (2 + length key + extra) mod 8 + extra)%nat /\
    exists lp hb enc_key mac,
      key_len_prefix key = Ok lp /\ length lp = 2%nat /\ encode_ascii hdr = Ok hb /\
      bytes_ok hb = true /\
      encrypt_cbc cd (fst (c_derive kbpk)) (firstn 8 hb) (clear_key_data lp key tape) = Ok enc_key /\
      length enc_key = length (clear_key_data lp key tape) /\
      s = hdr ++ hex_upper enc_key ++ hex_upper mac /\
      decrypt_cbc cd (fst (c_derive kbpk)) (firstn 8 hb) enc_key = Ok (clear_key_data lp key tape).
  Proof.
    intros Bk Bt E. unfold c_wrap in E.
    destruct (negb (mem_nat (length kbpk) [8; 16; 24]%nat)); [discriminate|].
    unfold c_derive in E. cbv zeta in E.
    destruct (Nat.eqb_spec (length tape) (8 - (2 + length key + extra) mod 8 + extra)) as [L|L];
      cbn [negb] in E; [|discriminate].
    apply bind_ok in E as (lp & Elp & E). apply bind_ok in E as (hb & Ehb & E).
    apply bind_ok in E as (enc_key & Ee & E). apply bind_ok in E as (mac & _ & E).
    injection E as <-.
    destruct (key_len_prefix_inv key lp Elp) as [Llp Blp].
    destruct (encode_ascii_inv hdr hb Ehb) as [_ Bhb].
    assert (Bc : bytes_ok (clear_key_data lp key tape) = true).
    { unfold clear_key_data. rewrite !bytes_ok_app. auto. }
    split; [assumption|]. exists lp, hb, enc_key, mac. unfold c_derive. cbn [fst].
    repeat split; try assumption; try reflexivity.
    - apply (encrypt_cbc_length cd _ _ _ _ Hcd Ee).
    - apply decrypt_encrypt_cbc; try assumption. apply bytes_ok_firstn. assumption.
  Qed.

  Theorem c_wrap_tape_injective kbpk hdr key extra t1 t2 s :
    bytes_ok key = true -> bytes_ok t1 = true -> bytes_ok t2 = true ->
    c_wrap cd ca kbpk hdr key extra t1 = Ok s -> c_wrap cd ca kbpk hdr key extra t2 = Ok s ->
    t1 = t2.
  Proof.
    intros Bk B1 B2 E1 E2.
    destruct (c_wrap_exposes_tape _ _ _ _ _ _ Bk B1 E1)
      as (L1 & lp1 & hb1 & e1 & m1 & P1 & Ll1 & A1 & Bh1 & C1 & Le1 & S1 & D1).
    destruct (c_wrap_exposes_tape _ _ _ _ _ _ Bk B2 E2)
      as (L2 & lp2 & hb2 & e2 & m2 & P2 & Ll2 & A2 & Bh2 & C2 & Le2 & S2 & D2).
    rewrite P1 in P2. injection P2 as <-. rewrite A1 in A2. injection A2 as <-.
    assert (Le : length e1 = length e2).
    { rewrite Le1, Le2. unfold clear_key_data. rewrite !app_length. lia. }
    rewrite S1 in S2. destruct (wrap_output_split hdr e1 m1 e2 m2 Le S2) as [<- <-].
    rewrite D1 in D2. injection D2 as D2. unfold clear_key_data in D2.
    apply app_inv_head in D2. apply app_inv_head in D2. assumption.
  Qed.

  (* ---- version B: the IV is the MAC, which is part of the output ---- *)
  Theorem b_wrap_exposes_tape kbpk hdr key extra tape s :
    bytes_ok key = true -> bytes_ok tape = true ->
    b_wrap cd ca kbpk hdr key extra tape = Ok s ->
    length tape = (8 - (2 + length key + extra) mod 8 + extra)%nat /\
    exists kbek kbak lp enc_key mac,
      b_derive cd ca kbpk = Ok (kbek, kbak) /\
      key_len_prefix key = Ok lp /\ length lp = 2%nat /\
      b_generate_mac cd ca kbak hdr (clear_key_data lp key tape) = Ok mac /\ bytes_ok mac = true /\
      encrypt_cbc cd kbek mac (clear_key_data lp key tape) = Ok enc_key /\
      length enc_key = length (clear_key_data lp key tape) /\
      s = hdr ++ hex_upper enc_key ++ hex_upper mac /\
      decrypt_cbc cd kbek mac enc_key = Ok (clear_key_data lp key tape).
  Proof.
    intros Bk Bt E. unfold b_wrap in E.
    destruct (negb (mem_nat (length kbpk) [16; 24]%nat)); [discriminate|].
    apply bind_ok in E as ([kbek kbak] & Ed & E).
    destruct (Nat.eqb_spec (length tape) (8 - (2 + length key + extra) mod 8 + extra)) as [L|L];
      cbn [negb] in E; [|discriminate].
    apply bind_ok in E as (lp & Elp & E). apply bind_ok in E as (mac & Em & E).
    apply bind_ok in E as (enc_key & Ee & E). injection E as <-.
    destruct (key_len_prefix_inv key lp Elp) as [Llp Blp].
    assert (Bm : bytes_ok mac = true).
    { unfold b_generate_mac in Em. apply bind_ok in Em as (ks & _ & Em).
      apply bind_ok in Em as (hb & _ & Em).
      apply (generate_cbc_mac_bytes_ok _ _ _ _ _ _ _ _ Hcd Hca Em). }
    assert (Bc : bytes_ok (clear_key_data lp key tape) = true).
    { unfold clear_key_data. rewrite !bytes_ok_app. auto. }
    split; [assumption|]. exists kbek, kbak, lp, enc_key, mac.
    repeat split; try assumption; try reflexivity.
    - apply (encrypt_cbc_length cd _ _ _ _ Hcd Ee).
    - apply decrypt_encrypt_cbc; assumption.
  Qed.

  Theorem b_wrap_tape_injective kbpk hdr key extra t1 t2 s :
    bytes_ok key = true -> bytes_ok t1 = true -> bytes_ok t2 = true ->
    b_wrap cd ca kbpk hdr key extra t1 = Ok s -> b_wrap cd ca kbpk hdr key extra t2 = Ok s ->
    t1 = t2.
  Proof.
    intros Bk B1 B2 E1 E2.
    destruct (b_wrap_exposes_tape _ _ _ _ _ _ Bk B1 E1)
      as (L1 & ke1 & ka1 & lp1 & e1 & m1 & K1 & P1 & Ll1 & M1 & Bm1 & C1 & Le1 & S1 & D1).
    destruct (b_wrap_exposes_tape _ _ _ _ _ _ Bk B2 E2)
      as (L2 & ke2 & ka2 & lp2 & e2 & m2 & K2 & P2 & Ll2 & M2 & Bm2 & C2 & Le2 & S2 & D2).
    rewrite P1 in P2. injection P2 as <-. rewrite K1 in K2. injection K2 as <- <-.
    assert (Le : length e1 = length e2).
    { rewrite Le1, Le2. unfold clear_key_data. rewrite !app_length. lia. }
    rewrite S1 in S2. destruct (wrap_output_split hdr e1 m1 e2 m2 Le S2) as [<- <-].
    rewrite D1 in D2. injection D2 as D2. unfold clear_key_data in D2.
    apply app_inv_head in D2. apply app_inv_head in D2. assumption.
  Qed.

  (* ---- version D ---- *)
  Theorem d_wrap_exposes_tape kbpk hdr key extra tape s :
    bytes_ok key = true -> bytes_ok tape = true ->
    d_wrap cd ca kbpk hdr key extra tape = Ok s ->
    length tape = (16 - (2 + length key + extra) mod 16 + extra)%nat /\
    exists kbek kbak lp enc_key mac,
      d_derive cd ca kbpk = Ok (kbek, kbak) /\
      key_len_prefix key = Ok lp /\ length lp = 2%nat /\
      d_generate_mac cd ca kbak hdr (clear_key_data lp key tape) = Ok mac /\ bytes_ok mac = true /\
      encrypt_cbc ca kbek mac (clear_key_data lp key tape) = Ok enc_key /\
      length enc_key = length (clear_key_data lp key tape) /\
      s = hdr ++ hex_upper enc_key ++ hex_upper mac /\
      decrypt_cbc ca kbek mac enc_key = Ok (clear_key_data lp key tape).
  Proof.
    intros Bk Bt E. unfold d_wrap in E.
    destruct (negb (mem_nat (length kbpk) [16; 24; 32]%nat)); [discriminate|].
    apply bind_ok in E as ([kbek kbak] & Ed & E).
    destruct (Nat.eqb_spec (length tape) (16 - (2 + length key + extra) mod 16 + extra)) as [L|L];
      cbn [negb] in E; [|discriminate].
    apply bind_ok in E as (lp & Elp & E). apply bind_ok in E as (mac & Em & E).
    apply bind_ok in E as (enc_key & Ee & E). injection E as <-.
    destruct (key_len_prefix_inv key lp Elp) as [Llp Blp].
    assert (Bm : bytes_ok mac = true).
    { unfold d_generate_mac in Em. apply bind_ok in Em as (ks & _ & Em).
      apply bind_ok in Em as (hb & _ & Em).
      apply (generate_cbc_mac_bytes_ok _ _ _ _ _ _ _ _ Hcd Hca Em). }
    assert (Bc : bytes_ok (clear_key_data lp key tape) = true).
    { unfold clear_key_data. rewrite !bytes_ok_app. auto. }
    split; [assumption|]. exists kbek, kbak, lp, enc_key, mac.
    repeat split; try assumption; try reflexivity.
    - apply (encrypt_cbc_length ca _ _ _ _ Hca Ee).
    - apply decrypt_encrypt_cbc; assumption.
  Qed.

  Theorem d_wrap_tape_injective kbpk hdr key extra t1 t2 s :
    bytes_ok key = true -> bytes_ok t1 = true -> bytes_ok t2 = true ->
    d_wrap cd ca kbpk hdr key extra t1 = Ok s -> d_wrap cd ca kbpk hdr key extra t2 = Ok s ->
    t1 = t2.
  Proof.
    intros Bk B1 B2 E1 E2.
    destruct (d_wrap_exposes_tape _ _ _ _ _ _ Bk B1 E1)
      as (L1 & ke1 & ka1 & lp1 & e1 & m1 & K1 & P1 & Ll1 & M1 & Bm1 & C1 & Le1 & S1 & D1).
    destruct (d_wrap_exposes_tape _ _ _ _ _ _ Bk B2 E2)
      as (L2 & ke2 & ka2 & lp2 & e2 & m2 & K2 & P2 & Ll2 & M2 & Bm2 & C2 & Le2 & S2 & D2).
    rewrite P1 in P2. injection P2 as <-. rewrite K1 in K2. injection K2 as <- <-.
    assert (Le : length e1 = length e2).
    { rewrite Le1, Le2. unfold clear_key_data. rewrite !app_length. lia. }
    rewrite S1 in S2. destruct (wrap_output_split hdr e1 m1 e2 m2 Le S2) as [<- <-].
    rewrite D1 in D2. injection D2 as D2. unfold clear_key_data in D2.
    apply app_inv_head in D2. apply app_inv_head in D2. assumption.
  Qed.
End Wraps.

(* ------------------------------------------------------------------ *)
(* helpers for the Examples of Properties/C14.v                         *)
(* two results are values, and different / equal ones *)
Definition differ (a b : res (list N)) : bool :=
  match a, b with Ok x, Ok y => negb (list_eqb x y) | _, _ => false end.
Definition same (a b : res (list N)) : bool :=
  match a, b with Ok x, Ok y => list_eqb x y | _, _ => false end.
(* "B0096P0TE00N0000" *)
Definition ex_hdr : str := [66; 48; 48; 57; 54; 80; 48; 84; 69; 48; 48; 78; 48; 48; 48; 48].
