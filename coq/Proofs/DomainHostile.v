(* C16 - concrete hostile inputs, evaluated on the model with the toy ciphers *)
From Psec Require Import Lib.Base Cipher.Cipher Cipher.Toy Model.Tools Model.Mac Model.Cvv Model.Pin
  Model.Pinblock Proofs.DomainLemmas.
Open Scope N_scope.

(* "1234" with: full-width digit three (U+FF13), Arabic-Indic digit three (U+0663),
   a sign, an inner space, a trailing newline (4 and 5 characters), NUL, an
   underscore, and wrong lengths *)
Definition hostile_pins : list str :=
  [ [49; 50; 65299; 52]; [49; 50; 65297; 52]; [49; 50; 1635; 52]; [43; 49; 50; 51]; [45; 49; 50; 51];
    [49; 50; 32; 52]; [32; 49; 50; 51]; [49; 50; 51; 10]; [49; 50; 51; 52; 10]; [49; 50; 0; 52];
    [49; 95; 50; 51]; [49; 50; 51; 178]; [49; 50; 51];
    [49; 50; 51; 52; 53; 54; 55; 56; 57; 48; 49; 50; 51; 52; 53; 54; 55]; [] ].

Definition good_pin : str := [49; 50; 51; 52].
Definition good_pan : str := [53; 53; 52; 52; 51; 51; 50; 50; 49; 49; 48; 48; 57; 57; 54; 54].
Definition good_choices : str := [65; 66; 67; 68; 69; 70; 65; 66; 67; 68].
Definition good_tape8 : bytes := [1; 35; 69; 103; 137; 171; 205; 239].
Definition key16 : bytes := [1; 35; 69; 103; 137; 171; 205; 239; 254; 220; 186; 152; 118; 84; 50; 16].
Definition good_table : str := [49; 50; 51; 52; 53; 54; 55; 56; 57; 48; 49; 50; 51; 52; 53; 54].
Definition chr_F : str := [70].

(* the same hostile edits applied to a PAN *)
Definition hostile_pans : list str :=
  [ [53; 53; 52; 52; 51; 51; 50; 50; 49; 49; 48; 48; 57; 57; 54; 65302];
    [53; 53; 52; 52; 51; 51; 50; 50; 49; 49; 48; 48; 57; 57; 54; 1638];
    [43; 53; 52; 52; 51; 51; 50; 50; 49; 49; 48; 48; 57; 57; 54; 54];
    [53; 53; 52; 52; 32; 51; 50; 50; 49; 49; 48; 48; 57; 57; 54; 54];
    [53; 53; 52; 52; 51; 51; 50; 50; 49; 49; 48; 48; 57; 57; 54; 10];
    [53; 53; 52; 52; 51; 51; 50; 50; 49; 49; 48; 48; 57; 57; 54; 54; 10];
    [53; 53; 52; 52; 51; 51; 50; 50; 49; 49; 48; 48; 57; 57; 54; 0];
    [53; 53; 52; 52; 51; 51; 50; 50; 49; 49; 48; 48; 57; 57; 54; 70] ].

Definition all_value_error {A} (l : list (res A)) : bool := forallb is_value_error l.
Definition all_ok {A} (l : list (res A)) : bool := forallb is_ok l.

Definition drop {A} (r : res A) : res unit := match r with Ok _ => Ok tt | Err e => Err e end.

(* every function that takes a PIN, applied to [pin] *)
Definition pin_calls (pin : str) : list (res unit) :=
  [ drop (encode_pinblock_iso_0 pin good_pan);
    drop (encode_pinblock_iso_2 pin);
    drop (encode_pinblock_iso_3 pin good_pan good_choices);
    drop (encode_pin_field_iso_4 pin good_tape8);
    drop (encipher_pinblock_iso_4 toy_aes key16 pin good_pan good_tape8);
    drop (generate_visa_pvv toy_tdes key16 [49] pin good_pan);
    drop (generate_ibm3624_offset toy_tdes key16 good_table pin good_pan 0 16 chr_F);
    drop (generate_ibm3624_pin toy_tdes key16 good_table pin good_pan 0 16 chr_F) ].

(* every function that takes a PAN, applied to [pan] *)
Definition pan_calls (pan : str) : list (res unit) :=
  [ drop (encode_pinblock_iso_0 good_pin pan);
    drop (encode_pinblock_iso_3 good_pin pan good_choices);
    drop (encode_pan_field_iso_4 pan);
    drop (encipher_pinblock_iso_4 toy_aes key16 good_pin pan good_tape8);
    drop (decode_pinblock_iso_0 [4; 18; 119; 205; 222; 239; 246; 105] pan);
    drop (decode_pinblock_iso_3 [52; 18; 119; 205; 222; 239; 246; 105] pan);
    drop (decipher_pinblock_iso_4 toy_aes key16 key16 pan);
    drop (generate_cvv toy_tdes key16 pan [57; 57; 49; 50] [50; 50; 48]);
    drop (generate_visa_pvv toy_tdes key16 [49] good_pin pan);
    drop (generate_ibm3624_offset toy_tdes key16 good_table good_pin pan 0 16 chr_F);
    drop (generate_ibm3624_pin toy_tdes key16 good_table good_pin pan 0 16 chr_F) ].

(* IBM 3624 with a given pad string and validation window *)
Definition ibm_calls (pan_pad : str) (o l : nat) : list (res unit) :=
  [ drop (generate_ibm3624_offset toy_tdes key16 good_table good_pin good_pan o l pan_pad);
    drop (generate_ibm3624_pin toy_tdes key16 good_table good_pin good_pan o l pan_pad) ].

(* ------------------------------------------------------------------ *)
(* the documented domains, spelled out                                  *)
From Psec Require Import Proofs.DomainPinblock Proofs.DomainCard Proofs.DomainMac.

Lemma domains_explicit :
  (forall s, dec_str s <-> Forall (fun c => 48 <= c <= 57) s) /\
  (forall c, hex_char c <-> (48 <= c <= 57 \/ 65 <= c <= 70 \/ 97 <= c <= 102)) /\
  (forall s, af_str s <-> Forall (fun c => 65 <= c <= 70) s) /\
  (forall k, dom_tdes_key k <-> (length k = 8 \/ length k = 16 \/ length k = 24)%nat) /\
  (forall k, dom_aes_key k <-> (length k = 16 \/ length k = 24 \/ length k = 32)%nat) /\
  (forall pin pan, dom_encode_pinblock_iso_0 pin pan <->
     ((4 <= length pin <= 12)%nat /\ dec_str pin) /\ ((13 <= length pan)%nat /\ dec_str pan)) /\
  (forall pin, dom_encode_pinblock_iso_2 pin <-> (4 <= length pin <= 12)%nat /\ dec_str pin) /\
  (forall pin pan, dom_encode_pinblock_iso_3 pin pan <->
     ((4 <= length pin <= 12)%nat /\ dec_str pin) /\ ((13 <= length pan)%nat /\ dec_str pan)) /\
  (forall pin, dom_encode_pin_field_iso_4 pin <-> (4 <= length pin <= 12)%nat /\ dec_str pin) /\
  (forall pan, dom_encode_pan_field_iso_4 pan <-> (1 <= length pan <= 19)%nat /\ dec_str pan) /\
  (forall key pin pan, dom_encipher_pinblock_iso_4 key pin pan <->
     (length key = 16 \/ length key = 24 \/ length key = 32)%nat /\
     ((4 <= length pin <= 12)%nat /\ dec_str pin) /\ ((1 <= length pan <= 19)%nat /\ dec_str pan)) /\
  (forall pinblock pan, dom_decode_pinblock_pan pinblock pan <->
     ((13 <= length pan)%nat /\ dec_str pan) /\ length pinblock = 8%nat) /\
  (forall key pin_block pan, dom_decipher_pinblock_iso_4 key pin_block pan <->
     (length key = 16 \/ length key = 24 \/ length key = 32)%nat /\ length pin_block = 16%nat /\
     ((1 <= length pan <= 19)%nat /\ dec_str pan)) /\
  (forall cvk pan expiry service_code, dom_generate_cvv cvk pan expiry service_code <->
     length cvk = 16%nat /\ ((length pan <= 19)%nat /\ dec_str pan) /\
     (length expiry = 4%nat /\ dec_str expiry) /\
     (length service_code = 3%nat /\ dec_str service_code)) /\
  (forall pvk pvki pin pan, dom_generate_visa_pvv pvk pvki pin pan <->
     (length pvk = 8 \/ length pvk = 16 \/ length pvk = 24)%nat /\
     (length pvki = 1%nat /\ dec_str pvki) /\ (length pin = 4%nat /\ dec_str pin) /\
     ((12 <= length pan)%nat /\ dec_str pan)) /\
  (forall pvk table digits pan o l pan_pad, dom_generate_ibm3624 pvk table digits pan o l pan_pad <->
     (length pvk = 8 \/ length pvk = 16 \/ length pvk = 24)%nat /\
     (length table = 16%nat /\ dec_str table) /\
     ((4 <= length digits <= 16)%nat /\ dec_str digits) /\
     ((length pan <= 19)%nat /\ dec_str pan) /\
     (exists c, pan_pad = [c] /\ hex_char c) /\
     (l = 0%nat \/ (o + l <= length pan)%nat)) /\
  (forall key padding (aes : bool), dom_generate_cbc_mac key padding aes <->
     (if aes then (length key = 16 \/ length key = 24 \/ length key = 32)%nat
      else (length key = 8 \/ length key = 16 \/ length key = 24)%nat) /\
     (padding = 1 \/ padding = 2 \/ padding = 3)) /\
  (forall key1 key2 padding, dom_generate_retail_mac key1 key2 padding <->
     (length key1 = 8 \/ length key1 = 16 \/ length key1 = 24)%nat /\
     (length key2 = 8 \/ length key2 = 16 \/ length key2 = 24)%nat /\
     (padding = 1 \/ padding = 2 \/ padding = 3)) /\
  (forall key data, dom_tdes_ecb key data <->
     (length key = 8 \/ length key = 16 \/ length key = 24)%nat /\
     (0 < length data)%nat /\ (length data mod 8 = 0)%nat) /\
  (forall key iv data, dom_tdes_cbc key iv data <->
     (length key = 8 \/ length key = 16 \/ length key = 24)%nat /\ length iv = 8%nat /\
     (0 < length data)%nat /\ (length data mod 8 = 0)%nat) /\
  (forall key data, dom_aes_ecb key data <->
     (length key = 16 \/ length key = 24 \/ length key = 32)%nat /\
     (0 < length data)%nat /\ (length data mod 16 = 0)%nat) /\
  (forall key iv data, dom_aes_cbc key iv data <->
     (length key = 16 \/ length key = 24 \/ length key = 32)%nat /\ length iv = 16%nat /\
     (0 < length data)%nat /\ (length data mod 16 = 0)%nat) /\
  (forall key, dom_generate_kcv key <-> (length key = 8 \/ length key = 16 \/ length key = 24)%nat) /\
  (forall key variant, dom_apply_key_variant key variant <->
     (length key = 8 \/ length key = 16 \/ length key = 24)%nat /\ (0 <= variant <= 31)%Z).
Proof.
  repeat match goal with |- _ /\ _ => split end; intros; reflexivity.
Qed.
