(* Hex text / nibble lemmas used by the card-value properties C09, C10, C11.
   (Self-contained: does not depend on Proofs/HexLemmas.v.) *)
From Coq Require Import Lia ZifyBool ZifyNat ZifyN.
From Psec Require Import Lib.Base Cipher.Cipher Proofs.XorLemmas.
Open Scope N_scope.
Ltac Zify.zify_post_hook ::= Z.to_euclidean_division_equations.

(* ------------------------------------------------------------------ *)
(* nibbles of bytes, bytes of nibbles                                   *)
Definition nibs (b : list N) : list N := flat_map (fun x => [x / 16; x mod 16]) b.

Fixpoint pack (n : list N) : list N :=
  match n with
  | h :: l :: r => 16 * h + l :: pack r
  | _ => []
  end.

(* value of a hex character (0 outside the hex alphabet) *)
Definition hv (c : N) : N := match unhex_digit c with Some v => v | None => 0 end.

Definition all_lt (m : N) (l : list N) : Prop := forall x, In x l -> x < m.

Lemma all_lt_cons m a l : all_lt m (a :: l) <-> a < m /\ all_lt m l.
Proof.
  unfold all_lt. split.
  - intros H. split; [apply H; left; reflexivity | intros x Hx; apply H; right; assumption].
  - intros [Ha Hl] x [<-|Hx]; auto.
Qed.

Lemma all_lt_nil m : all_lt m [].
Proof. intros x []. Qed.

Lemma all_lt_app m a b : all_lt m (a ++ b) <-> all_lt m a /\ all_lt m b.
Proof.
  unfold all_lt. split.
  - intros H. split; intros x Hx; apply H; apply in_or_app; auto.
  - intros [Ha Hb] x Hx. apply in_app_or in Hx as [?|?]; auto.
Qed.

Lemma all_lt_firstn m n l : all_lt m l -> all_lt m (firstn n l).
Proof.
  revert n. induction l as [|a l IH]; intros [|n] H; cbn [firstn]; try apply all_lt_nil.
  apply all_lt_cons in H as [Ha Hl]. apply all_lt_cons. auto.
Qed.

Lemma all_lt_skipn m n l : all_lt m l -> all_lt m (skipn n l).
Proof.
  revert n. induction l as [|a l IH]; intros [|n] H; cbn [skipn]; auto.
  apply all_lt_cons in H as [Ha Hl]. auto.
Qed.

Lemma all_lt_repeat m x n : x < m -> all_lt m (repeat x n).
Proof. intros Hx y Hy. apply repeat_spec in Hy. subst. assumption. Qed.

Lemma all_lt_weaken m m' l : m <= m' -> all_lt m l -> all_lt m' l.
Proof. intros Hm H x Hx. specialize (H x Hx). lia. Qed.

Lemma bytes_ok_all_lt l : bytes_ok l = true <-> all_lt 256 l.
Proof.
  unfold bytes_ok, byte_ok, all_lt. rewrite forallb_forall. split; intros H x Hx.
  - apply N.ltb_lt. auto.
  - apply N.ltb_lt. auto.
Qed.

(* induction two elements at a time *)
Lemma pair_ind {A} (P : list A -> Prop) :
  P [] -> (forall a b l, P l -> P (a :: b :: l)) ->
  forall k l, length l = (2 * k)%nat -> P l.
Proof.
  intros H0 H2. induction k as [|k IH]; intros l Hl.
  - destruct l; [assumption | cbn in Hl; lia].
  - destruct l as [|a [|b l]]; cbn [length] in Hl; try lia.
    apply H2. apply IH. lia.
Qed.

Lemma hex_lower_nibs b : hex_lower b = map hexdigit_lower (nibs b).
Proof.
  unfold hex_lower, nibs. induction b as [|x b IH]; [reflexivity|].
  cbn [flat_map app map]. rewrite IH. reflexivity.
Qed.

Lemma hex_upper_nibs b : hex_upper b = map hexdigit_upper (nibs b).
Proof.
  unfold hex_upper, nibs. induction b as [|x b IH]; [reflexivity|].
  cbn [flat_map app map]. rewrite IH. reflexivity.
Qed.

Lemma nibs_length b : length (nibs b) = (2 * length b)%nat.
Proof.
  unfold nibs. induction b as [|x b IH]; [reflexivity|].
  cbn [flat_map app length]. rewrite IH. lia.
Qed.

Lemma nibs_lt16 b : bytes_ok b = true -> all_lt 16 (nibs b).
Proof.
  unfold nibs. induction b as [|x b IH]; intros H; [apply all_lt_nil|].
  apply bytes_ok_cons in H as [Hx Hb]. cbn [flat_map app].
  apply all_lt_cons. split; [lia|]. apply all_lt_cons. split; [lia|]. auto.
Qed.

Lemma pack_length k l : length l = (2 * k)%nat -> length (pack l) = k.
Proof.
  revert l. induction k as [|k IH]; intros l Hl.
  - destruct l; [reflexivity | cbn in Hl; lia].
  - destruct l as [|a [|b l]]; cbn [length] in Hl; try lia.
    cbn [pack length]. f_equal. apply IH. lia.
Qed.

Lemma pack_bytes_ok k l : length l = (2 * k)%nat -> all_lt 16 l -> bytes_ok (pack l) = true.
Proof.
  intros Hl. revert k l Hl. apply (pair_ind (fun l => all_lt 16 l -> bytes_ok (pack l) = true)).
  - reflexivity.
  - intros a b l IH H. apply all_lt_cons in H as [Ha H]. apply all_lt_cons in H as [Hb H].
    cbn [pack]. apply bytes_ok_cons. split; [lia | auto].
Qed.

Lemma nibs_pack k l : length l = (2 * k)%nat -> all_lt 16 l -> nibs (pack l) = l.
Proof.
  intros Hl. revert k l Hl. apply (pair_ind (fun l => all_lt 16 l -> nibs (pack l) = l)).
  - reflexivity.
  - intros a b l IH H. apply all_lt_cons in H as [Ha H]. apply all_lt_cons in H as [Hb H].
    cbn [pack]. change (nibs (16 * a + b :: pack l))
      with ((16 * a + b) / 16 :: (16 * a + b) mod 16 :: nibs (pack l)).
    rewrite IH by assumption. f_equal; [lia|]. f_equal. lia.
Qed.

Lemma pack_app k a b : length a = (2 * k)%nat -> pack (a ++ b) = pack a ++ pack b.
Proof.
  intros Hl. revert k a Hl. apply (pair_ind (fun a => pack (a ++ b) = pack a ++ pack b)).
  - reflexivity.
  - intros x y l IH. cbn [app pack]. rewrite IH. reflexivity.
Qed.

(* ------------------------------------------------------------------ *)
(* hex characters                                                       *)
Lemma lt16_cases n : n < 16 ->
  In n [0;1;2;3;4;5;6;7;8;9;10;11;12;13;14;15].
Proof.
  intros H. cbn [In].
  assert (n = 0 \/ n = 1 \/ n = 2 \/ n = 3 \/ n = 4 \/ n = 5 \/ n = 6 \/ n = 7 \/ n = 8 \/
          n = 9 \/ n = 10 \/ n = 11 \/ n = 12 \/ n = 13 \/ n = 14 \/ n = 15) by lia.
  intuition.
Qed.

Lemma le9_cases n : n <= 9 -> In n [0;1;2;3;4;5;6;7;8;9].
Proof.
  intros H. cbn [In].
  assert (n = 0 \/ n = 1 \/ n = 2 \/ n = 3 \/ n = 4 \/ n = 5 \/ n = 6 \/ n = 7 \/ n = 8 \/ n = 9) by lia.
  intuition.
Qed.

Lemma is_digit_spec c : is_digit c = true <-> 48 <= c <= 57.
Proof. unfold is_digit. lia. Qed.

Lemma is_hexch_spec c : is_hexch c = true <-> (48 <= c <= 57 \/ 65 <= c <= 70 \/ 97 <= c <= 102).
Proof. unfold is_hexch, is_digit. lia. Qed.

Lemma unhex_digit_digit c : is_digit c = true -> unhex_digit c = Some (c - 48).
Proof. intros H. unfold unhex_digit. rewrite H. reflexivity. Qed.

Lemma hv_digit c : is_digit c = true -> hv c = c - 48.
Proof. intros H. unfold hv. rewrite unhex_digit_digit by assumption. reflexivity. Qed.

Lemma unhex_hexch c : is_hexch c = true -> unhex_digit c = Some (hv c) /\ hv c < 16.
Proof.
  intros H. apply is_hexch_spec in H. unfold hv, unhex_digit, is_digit.
  destruct ((48 <=? c) && (c <=? 57)) eqn:E1; [split; [reflexivity|lia]|].
  destruct ((65 <=? c) && (c <=? 70)) eqn:E2; [split; [reflexivity|lia]|].
  destruct ((97 <=? c) && (c <=? 102)) eqn:E3; [split; [reflexivity|lia]|].
  lia.
Qed.

Lemma hexch_not_space c : is_hexch c = true -> is_space c = false.
Proof. intros H. apply is_hexch_spec in H. unfold is_space. lia. Qed.

Lemma hv_up_char c : is_hexch c = true -> is_hexch (up_char c) = true /\ hv (up_char c) = hv c.
Proof.
  intros H. apply is_hexch_spec in H. unfold up_char, is_lower.
  destruct ((97 <=? c) && (c <=? 122)) eqn:E.
  - assert (Hc : 97 <= c <= 102) by lia. split; [apply is_hexch_spec; lia|].
    unfold hv, unhex_digit, is_digit.
    destruct ((48 <=? c - 32) && (c - 32 <=? 57)) eqn:E1; [lia|].
    destruct ((65 <=? c - 32) && (c - 32 <=? 70)) eqn:E2; [|lia].
    destruct ((48 <=? c) && (c <=? 57)) eqn:E3; [lia|].
    destruct ((65 <=? c) && (c <=? 70)) eqn:E4; [lia|].
    destruct ((97 <=? c) && (c <=? 102)) eqn:E5; [|lia].
    lia.
  - split; [apply is_hexch_spec; lia | reflexivity].
Qed.

Lemma ascii_numeric_forall s : ascii_numeric s = true <-> forall c, In c s -> is_digit c = true.
Proof. unfold ascii_numeric. apply forallb_forall. Qed.

Lemma ascii_numeric_cons c s : ascii_numeric (c :: s) = true <-> is_digit c = true /\ ascii_numeric s = true.
Proof. unfold ascii_numeric. cbn [forallb]. apply andb_true_iff. Qed.

Lemma ascii_numeric_app a b : ascii_numeric (a ++ b) = true <-> ascii_numeric a = true /\ ascii_numeric b = true.
Proof. unfold ascii_numeric. rewrite forallb_app. apply andb_true_iff. Qed.

Lemma In_firstn {A} n (l : list A) x : In x (firstn n l) -> In x l.
Proof.
  revert n. induction l as [|a l IH]; intros [|n] H; cbn [firstn] in H; auto.
  - destruct H.
  - destruct H as [<-|H]; [left; reflexivity | right; eapply IH; eassumption].
Qed.

Lemma ascii_numeric_firstn n s : ascii_numeric s = true -> ascii_numeric (firstn n s) = true.
Proof.
  rewrite !ascii_numeric_forall. intros H c Hc. apply H. eapply In_firstn. eassumption.
Qed.

Lemma In_skipn {A} n (l : list A) x : In x (skipn n l) -> In x l.
Proof.
  revert n. induction l as [|a l IH]; intros [|n] H; cbn [skipn] in H; auto.
  right. eapply IH. eassumption.
Qed.

Lemma ascii_numeric_skipn n s : ascii_numeric s = true -> ascii_numeric (skipn n s) = true.
Proof.
  rewrite !ascii_numeric_forall. intros H c Hc. apply H. eapply In_skipn. eassumption.
Qed.

Lemma ascii_numeric_repeat c n : is_digit c = true -> ascii_numeric (repeat c n) = true.
Proof. intros H. apply ascii_numeric_forall. intros x Hx. apply repeat_spec in Hx. subst. assumption. Qed.

Lemma ascii_hexchar_forall s : ascii_hexchar s = true <-> forall c, In c s -> is_hexch c = true.
Proof. unfold ascii_hexchar. apply forallb_forall. Qed.

Lemma ascii_hexchar_cons c s : ascii_hexchar (c :: s) = true <-> is_hexch c = true /\ ascii_hexchar s = true.
Proof. unfold ascii_hexchar. cbn [forallb]. apply andb_true_iff. Qed.

Lemma digit_is_hexch c : is_digit c = true -> is_hexch c = true.
Proof. intros H. unfold is_hexch. rewrite H. reflexivity. Qed.

Lemma numeric_is_hexchar s : ascii_numeric s = true -> ascii_hexchar s = true.
Proof.
  rewrite ascii_numeric_forall, ascii_hexchar_forall. intros H c Hc. apply digit_is_hexch. auto.
Qed.

Lemma map_hv_digits s : ascii_numeric s = true -> map hv s = map (fun c => c - 48) s.
Proof.
  intros H. apply map_ext_in. intros c Hc. apply hv_digit.
  rewrite ascii_numeric_forall in H. auto.
Qed.

Lemma map_hv_lt16 s : ascii_hexchar s = true -> all_lt 16 (map hv s).
Proof.
  rewrite ascii_hexchar_forall. intros H x Hx. apply in_map_iff in Hx as (c & <- & Hc).
  apply unhex_hexch. auto.
Qed.

(* binascii.a2b_hex and bytes.fromhex on an even number of hex characters *)
Lemma a2b_hex_hexchar k s : length s = (2 * k)%nat -> ascii_hexchar s = true ->
  a2b_hex s = Ok (pack (map hv s)).
Proof.
  intros Hl. revert k s Hl.
  apply (pair_ind (fun s => ascii_hexchar s = true -> a2b_hex s = Ok (pack (map hv s)))).
  - reflexivity.
  - intros a b l IH H. apply ascii_hexchar_cons in H as [Ha H]. apply ascii_hexchar_cons in H as [Hb H].
    cbn [a2b_hex map pack].
    destruct (unhex_hexch a Ha) as [-> _]. destruct (unhex_hexch b Hb) as [-> _].
    rewrite IH by assumption. reflexivity.
Qed.

Lemma bytes_fromhex_hexchar k s : length s = (2 * k)%nat -> ascii_hexchar s = true ->
  bytes_fromhex s = Ok (pack (map hv s)).
Proof.
  intros Hl. revert k s Hl.
  apply (pair_ind (fun s => ascii_hexchar s = true -> bytes_fromhex s = Ok (pack (map hv s)))).
  - reflexivity.
  - intros a b l IH H. apply ascii_hexchar_cons in H as [Ha H]. apply ascii_hexchar_cons in H as [Hb H].
    cbn [bytes_fromhex map pack]. rewrite (hexch_not_space a Ha).
    destruct (unhex_hexch a Ha) as [-> _]. destruct (unhex_hexch b Hb) as [-> _].
    rewrite IH by assumption. reflexivity.
Qed.

(* ------------------------------------------------------------------ *)
(* the hex alphabet, nibble by nibble (finite sweeps over 0..15)        *)
Lemma sweep16 (P : N -> bool) :
  forallb P [0;1;2;3;4;5;6;7;8;9;10;11;12;13;14;15] = true -> forall n, n < 16 -> P n = true.
Proof.
  intros H n Hn. rewrite forallb_forall in H. apply H. apply lt16_cases. assumption.
Qed.

Lemma hexdigit_lower_class n : n < 16 ->
  is_digit (hexdigit_lower n) = (n <? 10) /\
  ((97 <=? hexdigit_lower n) && (hexdigit_lower n <=? 102)) = (10 <=? n).
Proof.
  intros Hn.
  pose proof (sweep16 (fun n => Bool.eqb (is_digit (hexdigit_lower n)) (n <? 10) &&
     Bool.eqb ((97 <=? hexdigit_lower n) && (hexdigit_lower n <=? 102)) (10 <=? n))
     ltac:(vm_compute; reflexivity) n Hn) as H.
  cbv beta in H. apply andb_true_iff in H as [H1 H2].
  apply eqb_prop in H1. apply eqb_prop in H2. split; assumption.
Qed.

Lemma hexdigit_upper_unhex n : n < 16 ->
  (is_digit (hexdigit_upper n) || ((65 <=? hexdigit_upper n) && (hexdigit_upper n <=? 70))) = true /\
  unhex_digit (hexdigit_upper n) = Some n.
Proof.
  intros Hn.
  pose proof (sweep16 (fun n =>
     (is_digit (hexdigit_upper n) || ((65 <=? hexdigit_upper n) && (hexdigit_upper n <=? 70))) &&
     match unhex_digit (hexdigit_upper n) with Some v => v =? n | None => false end)
     ltac:(vm_compute; reflexivity) n Hn) as H.
  cbv beta in H. apply andb_true_iff in H as [H1 H2]. split; [assumption|].
  destruct (unhex_digit (hexdigit_upper n)); [|discriminate].
  apply N.eqb_eq in H2. subst. reflexivity.
Qed.

(* filter over a map *)
Lemma filter_map {A B} (f : A -> B) (p : B -> bool) l :
  filter p (map f l) = map f (filter (fun x => p (f x)) l).
Proof.
  induction l as [|a l IH]; [reflexivity|]. cbn [map filter].
  destruct (p (f a)); cbn [map]; rewrite IH; reflexivity.
Qed.

Lemma filter_ext_in' {A} (p q : A -> bool) l :
  (forall x, In x l -> p x = q x) -> filter p l = filter q l.
Proof.
  induction l as [|a l IH]; intros H; [reflexivity|]. cbn [filter].
  rewrite (H a) by (left; reflexivity). rewrite IH by (intros; apply H; right; assumption).
  reflexivity.
Qed.

Lemma filter_length_split {A} (p : A -> bool) l :
  (length (filter p l) + length (filter (fun x => negb (p x)) l))%nat = length l.
Proof.
  induction l as [|a l IH]; [reflexivity|]. cbn [filter]. destruct (p a); cbn [negb length]; lia.
Qed.

(* ------------------------------------------------------------------ *)
(* bytewise xor as a zip                                                *)
Lemma xor_pos_combine a b : length a = length b ->
  xor_pos a b = map (fun p => N.lxor (fst p) (snd p)) (combine a b).
Proof.
  revert b. induction a as [|x a IH]; intros [|y b] H; cbn [length] in H; try lia; [reflexivity|].
  cbn [xor_pos combine map fst snd]. f_equal. apply IH. lia.
Qed.

(* ------------------------------------------------------------------ *)
(* single-block ECB                                                     *)
Lemma encrypt_ecb_one (c : cipher) key b : cipher_ok c ->
  valid_key c key = true -> length b = bs c ->
  encrypt_ecb c key b = Ok (enc c key b).
Proof.
  intros Hc Hk Hb. pose proof (bs_pos c Hc) as Hp.
  unfold encrypt_ecb, bad_len, nblocks. rewrite Hb, Hk.
  rewrite Nat.mod_same by lia. rewrite Nat.div_same by lia.
  replace (bs c <? bs c)%nat with false by (symmetry; apply Nat.ltb_irrefl).
  cbn [orb negb Nat.eqb ecb_n]. rewrite app_nil_r.
  rewrite <- Hb. rewrite firstn_all. reflexivity.
Qed.

(* ------------------------------------------------------------------ *)
(* ljust / slices                                                       *)
Lemma ljust_length k c s : (length s <= k)%nat -> length (ljust k c s) = k.
Proof. intros H. unfold ljust. rewrite app_length, repeat_length. lia. Qed.

Lemma map_ljust {A B} (f : A -> B) k c s : map f (s ++ repeat c k) = map f s ++ repeat (f c) k.
Proof. rewrite map_app. f_equal. induction k; cbn [repeat map]; congruence. Qed.

Lemma last_n_length {A} k (s : list A) : (k <= length s)%nat -> length (last_n k s) = k.
Proof. intros H. unfold last_n. rewrite skipn_length. lia. Qed.
