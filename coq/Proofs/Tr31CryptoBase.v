(* Building blocks of the TR-31 wrap -> unwrap round trip (property C01):
   list equality, hex text round trip, CBC inversion, key extraction,
   CBC-MAC shape, CMAC subkey derivation.  Everything is for abstract lawful
   ciphers. *)
From Coq Require Import Lia ZifyBool ZifyNat ZifyN.
From Psec Require Import Lib.Base Cipher.Cipher Model.Tools Model.Mac Model.Tr31.
From Psec Require Import Proofs.XorLemmas Proofs.PadLemmas Proofs.Tr31Defs.
Ltac Zify.zify_post_hook ::= Z.to_euclidean_division_equations.
Open Scope N_scope.

(* ------------------------------------------------------------------ *)
(* list equality                                                        *)
Lemma list_eqb_refl l : list_eqb l l = true.
Proof.
  induction l as [|x l IH]; cbn [list_eqb]; [reflexivity|].
  rewrite N.eqb_refl. exact IH.
Qed.

Lemma list_eqb_eq a b : list_eqb a b = true -> a = b.
Proof.
  revert b. induction a as [|x a IH]; intros [|y b] H; cbn [list_eqb] in H; try discriminate; [reflexivity|].
  apply andb_true_iff in H as [H1 H2]. apply N.eqb_eq in H1. subst y. f_equal. apply IH. exact H2.
Qed.

(* ------------------------------------------------------------------ *)
(* small list facts                                                     *)
Lemma firstn_app_exact {A} (a b : list A) n : length a = n -> firstn n (a ++ b) = a.
Proof.
  intros <-. induction a as [|x a IH]; cbn [length app firstn].
  - destruct b; reflexivity.
  - f_equal. exact IH.
Qed.

Lemma skipn_app_exact {A} (a b : list A) n : length a = n -> skipn n (a ++ b) = b.
Proof. intros <-. induction a as [|x a IH]; cbn [length app skipn]; auto. Qed.

Lemma bytes_ok_rev' l : bytes_ok l = true -> bytes_ok (rev l) = true.
Proof.
  unfold bytes_ok. rewrite !forallb_forall. intros H x Hx. apply H. apply in_rev. exact Hx.
Qed.

Lemma le_bytes_ok n v : bytes_ok (le_bytes n v) = true.
Proof.
  revert v. induction n as [|n IH]; intros v; cbn [le_bytes]; [reflexivity|].
  apply bytes_ok_cons. split; [|apply IH]. apply N.mod_lt. discriminate.
Qed.

Lemma be_bytes_ok n v : bytes_ok (be_bytes n v) = true.
Proof. unfold be_bytes. apply bytes_ok_rev'. apply le_bytes_ok. Qed.

Lemma ascii_bytes_ok s : ascii_str s -> bytes_ok s = true.
Proof.
  unfold ascii_str, bytes_ok, byte_ok. rewrite !forallb_forall. intros H x Hx.
  specialize (H x Hx). apply N.ltb_lt in H. apply N.ltb_lt. lia.
Qed.

Lemma ascii_encode s : ascii_str s -> encode_ascii s = Ok s.
Proof. unfold ascii_str, encode_ascii. intros ->. reflexivity. Qed.

Lemma pos_multiple_ge (m b : nat) : (0 < m)%nat -> (m mod b = 0)%nat -> (b <= m)%nat.
Proof.
  intros Hm Hmod. destruct (Nat.lt_ge_cases m b) as [Hlt|]; [|assumption].
  rewrite Nat.mod_small in Hmod by assumption. lia.
Qed.

(* ------------------------------------------------------------------ *)
(* hex text round trip                                                  *)
Lemma hex_upper_cons x b :
  hex_upper (x :: b) = hexdigit_upper (x / 16) :: hexdigit_upper (x mod 16) :: hex_upper b.
Proof. reflexivity. Qed.

Lemma hex_upper_app a b : hex_upper (a ++ b) = hex_upper a ++ hex_upper b.
Proof. unfold hex_upper. apply flat_map_app. Qed.

Lemma hex_upper_length b : length (hex_upper b) = (2 * length b)%nat.
Proof.
  induction b as [|x b IH]; [reflexivity|]. rewrite hex_upper_cons. cbn [length]. rewrite IH. lia.
Qed.

Definition nib_ok (n : N) : bool :=
  negb (is_space (hexdigit_upper n)) &&
  match unhex_digit (hexdigit_upper n) with Some v => v =? n | None => false end.

Lemma nib_all : forallb nib_ok (map N.of_nat (seq 0 16)) = true.
Proof. vm_compute. reflexivity. Qed.

Lemma nib_spec n : n < 16 ->
  is_space (hexdigit_upper n) = false /\ unhex_digit (hexdigit_upper n) = Some n.
Proof.
  intros Hn. pose proof nib_all as H. rewrite forallb_forall in H.
  assert (Hin : In n (map N.of_nat (seq 0 16))).
  { rewrite <- (N2Nat.id n). apply in_map. apply in_seq. lia. }
  specialize (H n Hin). unfold nib_ok in H. apply andb_true_iff in H as [H1 H2].
  apply negb_true_iff in H1. split; [exact H1|].
  destruct (unhex_digit (hexdigit_upper n)) as [v|]; [|discriminate].
  apply N.eqb_eq in H2. congruence.
Qed.

Lemma bytes_fromhex_cons2 c d r :
  bytes_fromhex (c :: d :: r) =
  if is_space c then bytes_fromhex (d :: r)
  else match unhex_digit c, unhex_digit d with
       | Some h, Some l => do t <- bytes_fromhex r; Ok (16 * h + l :: t)
       | _, _ => Err ValueError
       end.
Proof. reflexivity. Qed.

Lemma fromhex_hex_upper : forall b, bytes_ok b = true -> bytes_fromhex (hex_upper b) = Ok b.
Proof.
  induction b as [|x b IH]; intros H; [reflexivity|].
  apply bytes_ok_cons in H as [Hx Hb].
  rewrite hex_upper_cons, bytes_fromhex_cons2.
  destruct (nib_spec (x / 16)) as [S1 U1]; [lia|].
  destruct (nib_spec (x mod 16)) as [S2 U2]; [lia|].
  rewrite S1, U1, U2, (IH Hb). cbn [bind].
  f_equal. f_equal. lia.
Qed.

Lemma fromhex_kbe_hex_upper : forall b, bytes_ok b = true -> fromhex_kbe (hex_upper b) = Ok b.
Proof. intros b H. unfold fromhex_kbe. rewrite fromhex_hex_upper by exact H. reflexivity. Qed.

(* ------------------------------------------------------------------ *)
(* CBC                                                                  *)
Section CBC.
  Variable c : cipher.
  Hypothesis Hc : cipher_ok c.
  Variable k : list N.
  Hypothesis Hk : valid_key c k = true.

  Lemma xorb_block a b : block_ok c a -> block_ok c b -> block_ok c (xorb a b).
  Proof.
    intros [La Ba] [Lb Bb]. unfold xorb. split.
    - rewrite py_xor_length. exact La.
    - apply py_xor_bytes_ok; assumption.
  Qed.

  Lemma first_block data n : length data = (S n * bs c)%nat -> bytes_ok data = true ->
    block_ok c (firstn (bs c) data).
  Proof.
    intros L B. split.
    - rewrite firstn_length. lia.
    - apply bytes_ok_firstn. exact B.
  Qed.

  Lemma rest_blocks data n : length data = (S n * bs c)%nat -> bytes_ok data = true ->
    length (skipn (bs c) data) = (n * bs c)%nat /\ bytes_ok (skipn (bs c) data) = true.
  Proof.
    intros L B. split.
    - rewrite skipn_length. lia.
    - apply bytes_ok_skipn. exact B.
  Qed.

  Lemma cbc_enc_n_ok n : forall iv data,
    length iv = bs c -> bytes_ok iv = true -> bytes_ok data = true ->
    length data = (n * bs c)%nat ->
    length (cbc_enc_n c k n iv data) = (n * bs c)%nat /\
    bytes_ok (cbc_enc_n c k n iv data) = true.
  Proof.
    induction n as [|n IH]; intros iv data Li Bi Bd Ld; [split; reflexivity|].
    cbn [cbc_enc_n].
    assert (Hct : block_ok c (enc c k (xorb (firstn (bs c) data) iv))).
    { apply (enc_block c Hc); [exact Hk|]. apply xorb_block; [eapply first_block; eassumption|split; assumption]. }
    destruct Hct as [Lct Bct].
    destruct (rest_blocks data n Ld Bd) as [Lr Br].
    destruct (IH _ _ Lct Bct Br Lr) as [L' B'].
    split.
    - rewrite app_length, L', Lct. lia.
    - apply bytes_ok_app. split; assumption.
  Qed.

  Lemma cbc_enc_n_length n iv data :
    length iv = bs c -> bytes_ok iv = true -> bytes_ok data = true ->
    length data = (n * bs c)%nat -> length (cbc_enc_n c k n iv data) = (n * bs c)%nat.
  Proof. intros. apply cbc_enc_n_ok; assumption. Qed.

  Lemma cbc_enc_n_bytes_ok n iv data :
    length iv = bs c -> bytes_ok iv = true -> bytes_ok data = true ->
    length data = (n * bs c)%nat -> bytes_ok (cbc_enc_n c k n iv data) = true.
  Proof. intros. apply cbc_enc_n_ok; assumption. Qed.

  Lemma cbc_dec_n_ok n : forall iv data,
    length iv = bs c -> bytes_ok iv = true -> bytes_ok data = true ->
    length data = (n * bs c)%nat ->
    length (cbc_dec_n c k n iv data) = (n * bs c)%nat /\
    bytes_ok (cbc_dec_n c k n iv data) = true.
  Proof.
    induction n as [|n IH]; intros iv data Li Bi Bd Ld; [split; reflexivity|].
    cbn [cbc_dec_n].
    destruct (first_block data n Ld Bd) as [Lct Bct].
    assert (Hx : block_ok c (xorb (dec c k (firstn (bs c) data)) iv)).
    { apply xorb_block; [|split; assumption]. apply (dec_block c Hc); [exact Hk|split; assumption]. }
    destruct Hx as [Lx Bx].
    destruct (rest_blocks data n Ld Bd) as [Lr Br].
    destruct (IH _ _ Lct Bct Br Lr) as [L' B'].
    split.
    - rewrite app_length, L', Lx. lia.
    - apply bytes_ok_app. split; assumption.
  Qed.

  Lemma cbc_dec_n_length n iv data :
    length iv = bs c -> bytes_ok iv = true -> bytes_ok data = true ->
    length data = (n * bs c)%nat -> length (cbc_dec_n c k n iv data) = (n * bs c)%nat.
  Proof. intros. apply cbc_dec_n_ok; assumption. Qed.

  Lemma cbc_dec_n_bytes_ok n iv data :
    length iv = bs c -> bytes_ok iv = true -> bytes_ok data = true ->
    length data = (n * bs c)%nat -> bytes_ok (cbc_dec_n c k n iv data) = true.
  Proof. intros. apply cbc_dec_n_ok; assumption. Qed.

  Lemma cbc_dec_enc_gen n : forall iv data,
    length iv = bs c -> bytes_ok iv = true -> bytes_ok data = true ->
    length data = (n * bs c)%nat ->
    cbc_dec_n c k n iv (cbc_enc_n c k n iv data) = data.
  Proof.
    induction n as [|n IH]; intros iv data Li Bi Bd Ld.
    - destruct data; [reflexivity|discriminate].
    - cbn [cbc_enc_n cbc_dec_n].
      pose proof (first_block data n Ld Bd) as Hd.
      assert (Hx : block_ok c (xorb (firstn (bs c) data) iv)).
      { apply xorb_block; [exact Hd|split; assumption]. }
      pose proof (enc_block c Hc k _ Hk Hx) as [Lct Bct].
      destruct (rest_blocks data n Ld Bd) as [Lr Br].
      rewrite (firstn_app_exact _ _ _ Lct), (skipn_app_exact _ _ _ Lct).
      rewrite (dec_enc c Hc k _ Hk Hx).
      rewrite (IH _ _ Lct Bct Br Lr).
      unfold xorb. destruct Hd as [Ld1 Bd1].
      rewrite py_xor_involutive by (try assumption; lia).
      apply firstn_skipn.
  Qed.

  (* the psec wrappers *)
  Lemma whole_blocks data : (length data mod bs c = 0)%nat ->
    length data = (nblocks c data * bs c)%nat.
  Proof.
    intros Hm. unfold nblocks. pose proof (bs_pos c Hc) as Hp.
    pose proof (Nat.div_mod (length data) (bs c) ltac:(lia)) as E. rewrite Hm in E. lia.
  Qed.

  Lemma encrypt_cbc_ok iv data :
    length iv = bs c -> bytes_ok iv = true -> bytes_ok data = true ->
    (bs c <= length data)%nat -> (length data mod bs c = 0)%nat ->
    exists ct, encrypt_cbc c k iv data = Ok ct /\ length ct = length data /\
               bytes_ok ct = true /\ decrypt_cbc c k iv ct = Ok data.
  Proof.
    intros Li Bi Bd Hge Hm.
    pose proof (whole_blocks data Hm) as Hn.
    destruct (cbc_enc_n_ok (nblocks c data) iv data Li Bi Bd Hn) as [Lct Bct].
    exists (cbc_enc_n c k (nblocks c data) iv data).
    assert (Hlen : length (cbc_enc_n c k (nblocks c data) iv data) = length data) by lia.
    assert (Hbad : forall x, length x = length data -> bad_len c x = false).
    { intros x Hx. unfold bad_len. rewrite Hx.
      destruct (Nat.ltb_spec (length data) (bs c)); [lia|].
      rewrite Hm. reflexivity. }
    repeat split.
    - unfold encrypt_cbc. rewrite (Hbad data eq_refl), Hk, Li, Nat.eqb_refl. reflexivity.
    - exact Hlen.
    - exact Bct.
    - unfold decrypt_cbc. rewrite (Hbad _ Hlen), Hk, Li, Nat.eqb_refl. cbn [negb].
      assert (nblocks c (cbc_enc_n c k (nblocks c data) iv data) = nblocks c data) as ->.
      { unfold nblocks at 1. rewrite Hlen. reflexivity. }
      rewrite (cbc_dec_enc_gen _ _ _ Li Bi Bd Hn). reflexivity.
  Qed.
End CBC.

Lemma cbc_dec_enc c k n iv data : cipher_ok c ->
  valid_key c k = true -> length iv = bs c -> bytes_ok iv = true -> bytes_ok data = true ->
  length data = (n * bs c)%nat ->
  cbc_dec_n c k n iv (cbc_enc_n c k n iv data) = data.
Proof. intros Hc Hk. apply cbc_dec_enc_gen; assumption. Qed.

Lemma decrypt_encrypt_cbc c k iv data ct : cipher_ok c ->
  bytes_ok iv = true -> bytes_ok data = true ->
  encrypt_cbc c k iv data = Ok ct -> decrypt_cbc c k iv ct = Ok data.
Proof.
  intros Hc Bi Bd E. unfold encrypt_cbc in E.
  destruct (bad_len c data) eqn:Hbad; [discriminate|].
  destruct (valid_key c k) eqn:Hk; [|discriminate]. cbn [negb] in E.
  destruct (Nat.eqb_spec (length iv) (bs c)) as [Li|]; [|discriminate]. cbn [negb] in E.
  unfold bad_len in Hbad. apply orb_false_iff in Hbad as [H1 H2].
  apply Nat.ltb_ge in H1. apply negb_false_iff in H2. apply Nat.eqb_eq in H2.
  destruct (encrypt_cbc_ok c Hc k Hk iv data Li Bi Bd H1 H2) as (ct' & E' & _ & _ & D).
  unfold encrypt_cbc in E'. unfold bad_len in E'.
  assert (ct = ct').
  { destruct (Nat.ltb_spec (length data) (bs c)); [lia|]. rewrite H2 in E'. cbn in E'.
    rewrite Hk, Li, Nat.eqb_refl in E'. cbn in E'. congruence. }
  subst ct'. exact D.
Qed.

(* one block of ECB *)
Lemma encrypt_ecb_block c k b : cipher_ok c -> valid_key c k = true -> length b = bs c ->
  encrypt_ecb c k b = Ok (enc c k b).
Proof.
  intros Hc Hk L. pose proof (bs_pos c Hc) as Hp.
  unfold encrypt_ecb, bad_len, nblocks. rewrite L, Hk.
  rewrite Nat.ltb_irrefl, Nat.mod_same, Nat.div_same by lia.
  cbn [orb negb Nat.eqb ecb_n]. rewrite <- L, firstn_all, app_nil_r. reflexivity.
Qed.

(* ------------------------------------------------------------------ *)
(* key extraction                                                       *)
Lemma key_len_prefix_ok key : lenN key * 8 < 65536 ->
  key_len_prefix key = Ok (be_bytes 2 (lenN key * 8)).
Proof.
  intros H. unfold key_len_prefix, to_bytes_be.
  change (256 ^ N.of_nat 2) with 65536.
  destruct (N.ltb_spec (lenN key * 8) 65536); [reflexivity|lia].
Qed.

Lemma extract_key_prefix : forall key tape lp, bytes_ok key = true -> lenN key * 8 < 65536 ->
  key_len_prefix key = Ok lp -> extract_key (lp ++ key ++ tape) = Ok key.
Proof.
  intros key tape lp Bk Hlen E. rewrite (key_len_prefix_ok key Hlen) in E. injection E as <-.
  unfold extract_key.
  rewrite (firstn_app_exact _ _ 2 (be_bytes_length 2 _)).
  rewrite be_int_be_bytes by (change (256 ^ N.of_nat 2) with 65536; exact Hlen).
  assert ((lenN key * 8) mod 8 = 0) as -> by lia.
  cbn [N.eqb negb].
  assert (N.to_nat (lenN key * 8 / 8) = length key) as -> by (unfold lenN; lia).
  unfold slice. rewrite (skipn_app_exact _ _ 2 (be_bytes_length 2 _)).
  rewrite (firstn_app_exact _ _ _ eq_refl). rewrite Nat.eqb_refl. reflexivity.
Qed.

(* ------------------------------------------------------------------ *)
(* CBC-MAC with padding method 1                                        *)
Section MAC.
  Variables cd ca : cipher.
  Hypothesis Hcs : ciphers_ok cd ca.

  Lemma sel_ok (aes : bool) : cipher_ok (if aes then ca else cd).
  Proof. destruct aes; [apply (ca_ok _ _ Hcs)|apply (cd_ok _ _ Hcs)]. Qed.

  Lemma cbc_mac_ok key data mlen (aes : bool) :
    valid_key (if aes then ca else cd) key = true -> bytes_ok data = true ->
    exists m, generate_cbc_mac cd ca key data 1 (Some mlen) aes = Ok m /\
              length m = Nat.min mlen (bs (if aes then ca else cd)) /\ bytes_ok m = true.
  Proof.
    intros Hk Bd. unfold generate_cbc_mac.
    set (c := if aes then ca else cd) in *.
    pose proof (sel_ok aes) as Hc. fold c in Hc.
    pose proof (bs_pos c Hc) as Hp.
    cbn [pad_dispatch]. rewrite (pad1_shape data (bs c) Hp). cbn [bind].
    destruct (pad1_count_least (bs c) (length data) Hp) as (P & M & _).
    set (k := pad1_count (bs c) (length data)) in *.
    set (pd := data ++ repeat 0 k).
    assert (Lpd : length pd = (length data + k)%nat) by (unfold pd; rewrite app_length, repeat_length; reflexivity).
    assert (Bpd : bytes_ok pd = true).
    { unfold pd. apply bytes_ok_app. split; [exact Bd|apply bytes_ok_repeat; lia]. }
    assert (Hge : (bs c <= length pd)%nat) by (apply pos_multiple_ge; rewrite Lpd; assumption).
    destruct (encrypt_cbc_ok c Hc key Hk (repeat 0 (bs c)) pd) as (ct & E & Lct & Bct & _).
    - apply repeat_length.
    - apply bytes_ok_repeat; lia.
    - exact Bpd.
    - exact Hge.
    - rewrite Lpd. exact M.
    - rewrite E. cbn [bind]. eexists. split; [reflexivity|]. split.
      + rewrite firstn_length. unfold last_n. rewrite skipn_length. lia.
      + apply bytes_ok_firstn. unfold last_n. apply bytes_ok_skipn. exact Bct.
  Qed.

  (* the MAC is a function of (key, data): same arguments, same result *)
  Lemma cbc_mac_deterministic key data p mlen aes m1 m2 :
    generate_cbc_mac cd ca key data p mlen aes = Ok m1 ->
    generate_cbc_mac cd ca key data p mlen aes = Ok m2 -> m1 = m2.
  Proof. intros E1 E2. rewrite E1 in E2. injection E2 as E2. exact E2. Qed.
End MAC.

(* ------------------------------------------------------------------ *)
(* CMAC subkeys                                                         *)
Lemma lenN_cons {A} (x : A) l : lenN (x :: l) = N.succ (lenN l).
Proof. unfold lenN. cbn [length]. apply Nat2N.inj_succ. Qed.

Lemma le_int_bound l : bytes_ok l = true -> le_int l < 256 ^ lenN l.
Proof.
  induction l as [|a l IH]; intros H.
  - cbn. lia.
  - apply bytes_ok_cons in H as [Ha Hl]. specialize (IH Hl).
    rewrite lenN_cons, N.pow_succ_r'. cbn [le_int]. lia.
Qed.

Lemma le_int_app a b : le_int (a ++ b) = le_int a + 256 ^ lenN a * le_int b.
Proof.
  induction a as [|x a IH].
  - cbn [app le_int]. change (lenN (@nil N)) with 0. rewrite N.pow_0_r. lia.
  - cbn [app le_int]. rewrite IH, lenN_cons, N.pow_succ_r'. lia.
Qed.

Lemma land127_lt a : N.land a 127 < 128.
Proof.
  change 127 with (N.ones 7). rewrite N.land_ones. apply N.mod_lt. discriminate.
Qed.

(* clearing the top bit leaves room for the shift *)
Lemma shift_fits b0 r : bytes_ok r = true ->
  2 * be_int (N.land b0 127 :: r) < 256 ^ N.of_nat (length (b0 :: r)).
Proof.
  intros Br. unfold be_int. cbn [rev]. rewrite le_int_app. cbn [le_int].
  pose proof (le_int_bound (rev r) (bytes_ok_rev' r Br)) as Hb.
  assert (lenN (rev r) = lenN r) as E by (unfold lenN; rewrite rev_length; reflexivity).
  rewrite E in *.
  change (N.of_nat (length (b0 :: r))) with (lenN (b0 :: r)).
  rewrite lenN_cons, N.pow_succ_r'.
  pose proof (land127_lt b0) as Hm.
  set (P := 256 ^ lenN r) in *. set (m := N.land b0 127) in *.
  assert (P * (m + 256 * 0) <= P * 127) by (apply N.mul_le_mono_l; lia).
  lia.
Qed.

Lemma shift_left_1_ok b : bytes_ok b = true -> (0 < length b)%nat ->
  exists sh, shift_left_1 b = Ok sh /\ length sh = length b /\ bytes_ok sh = true.
Proof.
  intros Bb Lb. destruct b as [|b0 r]; [cbn in Lb; lia|].
  apply bytes_ok_cons in Bb as [_ Br].
  unfold shift_left_1, to_bytes_be.
  pose proof (shift_fits b0 r Br) as Hf. apply N.ltb_lt in Hf. rewrite Hf.
  eexists. split; [reflexivity|]. split; [apply be_bytes_length|apply be_bytes_ok].
Qed.

Lemma index_0_ok {A} (l : list A) : (0 < length l)%nat -> exists x, index l 0 = Ok x.
Proof. destruct l as [|x l]; cbn [length]; [lia|]. intros _. exists x. reflexivity. Qed.

Lemma cmac_subkeys_ok c r key : cipher_ok c -> valid_key c key = true -> bytes_ok r = true ->
  exists k1 k2, cmac_subkeys c r key = Ok (k1, k2) /\
    length k1 = bs c /\ bytes_ok k1 = true /\ length k2 = bs c /\ bytes_ok k2 = true.
Proof.
  intros Hc Hk Br. pose proof (bs_pos c Hc) as Hp. unfold cmac_subkeys.
  rewrite (encrypt_ecb_block c key _ Hc Hk (repeat_length _ _)). cbn [bind].
  assert (Hz : block_ok c (repeat 0 (bs c))).
  { split; [apply repeat_length|apply bytes_ok_repeat; lia]. }
  destruct (enc_block c Hc key _ Hk Hz) as [Ls Bs].
  set (s := enc c key (repeat 0 (bs c))) in *.
  destruct (index_0_ok s ltac:(lia)) as (s0 & E0). rewrite E0. cbn [bind].
  destruct (shift_left_1_ok s Bs ltac:(lia)) as (sh & Esh & Lsh & Bsh). rewrite Esh. cbn [bind].
  set (k1 := if negb (N.land s0 128 =? 0) then py_xor sh r else sh).
  assert (Hk1 : length k1 = bs c /\ bytes_ok k1 = true).
  { unfold k1. destruct (negb (N.land s0 128 =? 0)).
    - rewrite py_xor_length. split; [lia|apply py_xor_bytes_ok; assumption].
    - split; [lia|assumption]. }
  destruct Hk1 as [Lk1 Bk1].
  destruct (index_0_ok k1 ltac:(lia)) as (k10 & E1). rewrite E1. cbn [bind].
  destruct (shift_left_1_ok k1 Bk1 ltac:(lia)) as (sh1 & Esh1 & Lsh1 & Bsh1). rewrite Esh1. cbn [bind].
  eexists. eexists. split; [reflexivity|]. split; [exact Lk1|]. split; [exact Bk1|].
  destruct (negb (N.land k10 128 =? 0)).
  - rewrite py_xor_length. split; [lia|apply py_xor_bytes_ok; assumption].
  - split; [lia|assumption].
Qed.
