(* Decimal / hexadecimal text of Lib/Base.v: str(n).zfill(k), int(s), int(s,16),
   bytes.hex().upper(), and the ASCII classes of the characters they produce. *)
From Coq Require Import Lia ZifyBool ZifyNat ZifyN.
From Psec Require Import Lib.Base Proofs.XorLemmas.
Ltac Zify.zify_post_hook ::= Z.to_euclidean_division_equations.
Open Scope N_scope.

(* ------------------------------------------------------------------ *)
(* lists                                                                *)
Lemma firstn_app_len {A} (a b : list A) n : length a = n -> firstn n (a ++ b) = a.
Proof.
  intros <-. rewrite firstn_app, Nat.sub_diag, firstn_all. cbn [firstn]. apply app_nil_r.
Qed.

Lemma skipn_app_len {A} (a b : list A) n : length a = n -> skipn n (a ++ b) = b.
Proof.
  intros <-. rewrite skipn_app, Nat.sub_diag, skipn_all. reflexivity.
Qed.

Lemma slice_app_mid {A} (a b c : list A) i k :
  length a = i -> length b = k -> slice i k (a ++ b ++ c) = b.
Proof.
  intros Ha Hb. unfold slice. rewrite (skipn_app_len a _ i Ha). apply firstn_app_len; assumption.
Qed.

Lemma forallb_repeat {A} (p : A -> bool) x n : p x = true -> forallb p (repeat x n) = true.
Proof. intros H. induction n; cbn [repeat forallb]; [reflexivity|]. rewrite H, IHn. reflexivity. Qed.

Lemma forallb_impl {A} (p q : A -> bool) l :
  (forall x, p x = true -> q x = true) -> forallb p l = true -> forallb q l = true.
Proof.
  intros H. rewrite !forallb_forall. intros Hp x Hx. apply H, Hp, Hx.
Qed.

Lemma list_eqb_eq a b : list_eqb a b = true <-> a = b.
Proof.
  revert b. induction a as [|x a IH]; intros [|y b]; cbn [list_eqb]; split; intros H;
    try reflexivity; try discriminate.
  - apply andb_true_iff in H as [Hx Hr]. apply N.eqb_eq in Hx. apply IH in Hr. congruence.
  - injection H as -> ->. rewrite N.eqb_refl. apply IH. reflexivity.
Qed.

Lemma list_eqb_refl a : list_eqb a a = true.
Proof. apply list_eqb_eq. reflexivity. Qed.

Lemma list_eqb_neq a b : a <> b -> list_eqb a b = false.
Proof.
  intros H. destruct (list_eqb a b) eqn:E; [|reflexivity]. apply list_eqb_eq in E. contradiction.
Qed.

Lemma length2 {A} (l : list A) : length l = 2%nat -> exists a b, l = [a; b].
Proof. destruct l as [|a [|b [|]]]; try discriminate. eauto. Qed.

Lemma length1 {A} (l : list A) : length l = 1%nat -> exists a, l = [a].
Proof. destruct l as [|a [|]]; try discriminate. eauto. Qed.

(* ------------------------------------------------------------------ *)
(* character classes                                                    *)
Definition is_upper_hex (c : N) : bool := is_digit c || ((65 <=? c) && (c <=? 70)).

Lemma is_digit_alnum c : is_digit c = true -> is_alnum c = true.
Proof. unfold is_alnum. intros ->. reflexivity. Qed.
Lemma is_alnum_print c : is_alnum c = true -> is_print c = true.
Proof. unfold is_alnum, is_digit, is_upper, is_lower, is_print. lia. Qed.
Lemma is_digit_print c : is_digit c = true -> is_print c = true.
Proof. intros. apply is_alnum_print, is_digit_alnum. assumption. Qed.
Lemma is_print_ascii c : is_print c = true -> (c <? 128) = true.
Proof. unfold is_print. lia. Qed.
Lemma is_upper_hex_print c : is_upper_hex c = true -> is_print c = true.
Proof. unfold is_upper_hex, is_digit, is_print. lia. Qed.
Lemma is_upper_hex_hexch c : is_upper_hex c = true -> is_hexch c = true.
Proof. unfold is_upper_hex, is_hexch, is_digit. lia. Qed.
Lemma is_upper_hex_alnum c : is_upper_hex c = true -> is_alnum c = true.
Proof. unfold is_upper_hex, is_alnum, is_digit, is_upper, is_lower. lia. Qed.

Lemma ascii_alnum_printable s : ascii_alphanumeric s = true -> ascii_printable s = true.
Proof. apply forallb_impl, is_alnum_print. Qed.
Lemma ascii_numeric_alnum s : ascii_numeric s = true -> ascii_alphanumeric s = true.
Proof. apply forallb_impl, is_digit_alnum. Qed.
Lemma ascii_printable_app a b :
  ascii_printable (a ++ b) = true <-> ascii_printable a = true /\ ascii_printable b = true.
Proof. unfold ascii_printable. rewrite forallb_app, andb_true_iff. reflexivity. Qed.
Lemma ascii_printable_lt128 s : ascii_printable s = true -> forallb (fun c => c <? 128) s = true.
Proof. apply forallb_impl, is_print_ascii. Qed.
Lemma ascii_printable_bytes_ok s : ascii_printable s = true -> bytes_ok s = true.
Proof. apply forallb_impl. intros c. unfold is_print, byte_ok. lia. Qed.
Lemma encode_ascii_printable s : ascii_printable s = true -> encode_ascii s = Ok s.
Proof. intros H. unfold encode_ascii. rewrite (ascii_printable_lt128 s H). reflexivity. Qed.

(* ------------------------------------------------------------------ *)
(* decimal                                                              *)
(* exactly k decimal digits of n, most significant first *)
Fixpoint dec_fixed (k : nat) (n : N) : str :=
  match k with O => [] | S k' => dec_fixed k' (n / 10) ++ [48 + n mod 10] end.

Lemma is_digit_dec n : is_digit (48 + n mod 10) = true.
Proof. unfold is_digit. lia. Qed.

Lemma dec_fixed_length k n : length (dec_fixed k n) = k.
Proof.
  revert n. induction k as [|k IH]; intros n; cbn [dec_fixed]; [reflexivity|].
  rewrite app_length, IH. cbn [length]. lia.
Qed.

Lemma dec_fixed_numeric k n : ascii_numeric (dec_fixed k n) = true.
Proof.
  revert n. induction k as [|k IH]; intros n; cbn [dec_fixed]; [reflexivity|].
  unfold ascii_numeric in *. rewrite forallb_app, IH. cbn [forallb]. rewrite is_digit_dec. reflexivity.
Qed.

Lemma dec_fixed_zero k : dec_fixed k 0 = repeat 48 k.
Proof.
  induction k as [|k IH]; [reflexivity|]. cbn [dec_fixed].
  change (0 / 10) with 0. change (48 + 0 mod 10) with 48. rewrite IH.
  rewrite <- repeat_cons. reflexivity.
Qed.

Lemma dec_value_snoc l c : dec_value (l ++ [c]) = 10 * dec_value l + (c - 48).
Proof. unfold dec_value. rewrite fold_left_app. reflexivity. Qed.

Lemma pow10_succ k : 10 ^ N.of_nat (S k) = 10 * 10 ^ N.of_nat k.
Proof. rewrite Nat2N.inj_succ, N.pow_succ_r'. reflexivity. Qed.

Lemma dec_value_dec_fixed k n : n < 10 ^ N.of_nat k -> dec_value (dec_fixed k n) = n.
Proof.
  revert n. induction k as [|k IH]; intros n Hn.
  - change (10 ^ N.of_nat 0) with 1 in Hn. cbn [dec_fixed]. unfold dec_value. cbn [fold_left]. lia.
  - cbn [dec_fixed]. rewrite dec_value_snoc. rewrite pow10_succ in Hn. rewrite IH by lia. lia.
Qed.

Theorem int_of_dec_dec_fixed k n : (1 <= k)%nat -> n < 10 ^ N.of_nat k ->
  int_of_dec (dec_fixed k n) = Ok n.
Proof.
  intros Hk Hn. unfold int_of_dec.
  pose proof (dec_fixed_length k n) as L. pose proof (dec_fixed_numeric k n) as Nm.
  pose proof (dec_value_dec_fixed k n Hn) as V.
  destruct (dec_fixed k n) as [|c r]; [cbn [length] in L; lia|].
  rewrite Nm, V. reflexivity.
Qed.

Lemma dec_digits_aux_S f n acc :
  dec_digits_aux (S f) n acc =
  if n <? 10 then (48 + n mod 10) :: acc else dec_digits_aux f (n / 10) ((48 + n mod 10) :: acc).
Proof. reflexivity. Qed.

(* str(n): the fuel is sufficient, and left-filled with zeros it is [dec_fixed] *)
Lemma dec_digits_aux_spec f : forall n acc k,
  n < 2 ^ N.of_nat f -> n < 10 ^ N.of_nat k -> (1 <= k)%nat ->
  exists l, dec_digits_aux (S f) n acc = l ++ acc /\ (length l <= k)%nat /\
            repeat 48 (k - length l) ++ l = dec_fixed k n.
Proof.
  induction f as [|f IH]; intros n acc k H2 H10 Hk.
  - change (2 ^ N.of_nat 0) with 1 in H2. assert (n = 0) by lia. subst n.
    exists [48]. rewrite dec_digits_aux_S. change (0 <? 10) with true. cbv iota.
    change (48 + 0 mod 10) with 48. repeat split.
    + cbn [length]. lia.
    + rewrite dec_fixed_zero. cbn [length]. destruct k as [|k]; [lia|].
      replace (S k - 1)%nat with k by lia. rewrite <- repeat_cons. reflexivity.
  - destruct k as [|k]; [lia|].
    rewrite dec_digits_aux_S. destruct (N.ltb_spec n 10) as [Hlt|Hge].
    + exists [48 + n mod 10]. repeat split.
      * cbn [length]. lia.
      * cbn [length dec_fixed]. replace (S k - 1)%nat with k by lia.
        replace (n / 10) with 0 by lia. rewrite dec_fixed_zero. reflexivity.
    + rewrite pow10_succ in H10.
      assert (Hk1 : (1 <= k)%nat).
      { destruct k; [|lia]. change (10 ^ N.of_nat 0) with 1 in H10. lia. }
      assert (H2' : n / 10 < 2 ^ N.of_nat f).
      { rewrite Nat2N.inj_succ, N.pow_succ_r' in H2. lia. }
      assert (H10' : n / 10 < 10 ^ N.of_nat k) by lia.
      destruct (IH (n / 10) ((48 + n mod 10) :: acc) k H2' H10' Hk1) as (l & E & Ll & R).
      exists (l ++ [48 + n mod 10]). repeat split.
      * rewrite E, <- app_assoc. reflexivity.
      * rewrite app_length. cbn [length]. lia.
      * cbn [dec_fixed]. rewrite <- R, app_length. cbn [length].
        replace (S k - (length l + 1))%nat with (k - length l)%nat by lia.
        rewrite app_assoc. reflexivity.
Qed.

Theorem zfill_str_of_N k n : (1 <= k)%nat -> n < 10 ^ N.of_nat k ->
  zfill k (str_of_N n) = dec_fixed k n.
Proof.
  intros Hk Hn. unfold zfill, rjust, str_of_N.
  destruct (dec_digits_aux_spec (N.to_nat (N.size n)) n [] k) as (l & E & L & R);
    [rewrite N2Nat.id; apply N.size_gt | assumption | assumption |].
  rewrite E, app_nil_r. exact R.
Qed.

(* codec lemma 1 *)
Theorem int_of_dec_zfill k n : (1 <= k)%nat -> n < 10 ^ N.of_nat k ->
  int_of_dec (zfill k (str_of_N n)) = Ok n /\
  length (zfill k (str_of_N n)) = k /\
  ascii_numeric (zfill k (str_of_N n)) = true.
Proof.
  intros Hk Hn. rewrite zfill_str_of_N by assumption.
  split; [apply int_of_dec_dec_fixed; assumption|].
  split; [apply dec_fixed_length | apply dec_fixed_numeric].
Qed.

Corollary int_of_dec_zfill4 n : n <= 9999 ->
  int_of_dec (zfill 4 (str_of_N n)) = Ok n /\ length (zfill 4 (str_of_N n)) = 4%nat /\
  ascii_numeric (zfill 4 (str_of_N n)) = true.
Proof. intros H. apply int_of_dec_zfill; [lia|]. change (10 ^ N.of_nat 4) with 10000. lia. Qed.

Corollary int_of_dec_zfill2 n : n <= 99 ->
  int_of_dec (zfill 2 (str_of_N n)) = Ok n /\ length (zfill 2 (str_of_N n)) = 2%nat /\
  ascii_numeric (zfill 2 (str_of_N n)) = true.
Proof. intros H. apply int_of_dec_zfill; [lia|]. change (10 ^ N.of_nat 2) with 100. lia. Qed.

(* str(n) is made of digits whatever n is (no bound needed) *)
Lemma dec_digits_aux_numeric f : forall n acc, ascii_numeric acc = true ->
  ascii_numeric (dec_digits_aux f n acc) = true.
Proof.
  induction f as [|f IH]; intros n acc H; cbn [dec_digits_aux]; [assumption|]. cbv zeta.
  assert (H' : ascii_numeric ((48 + n mod 10) :: acc) = true).
  { unfold ascii_numeric in *. cbn [forallb]. rewrite is_digit_dec, H. reflexivity. }
  destruct (n <? 10); [assumption | apply IH; assumption].
Qed.

Lemma zfill_str_of_N_numeric k n : ascii_numeric (zfill k (str_of_N n)) = true.
Proof.
  unfold zfill, rjust, ascii_numeric. rewrite forallb_app. apply andb_true_intro. split.
  - apply forallb_repeat. reflexivity.
  - apply dec_digits_aux_numeric. reflexivity.
Qed.

(* ------------------------------------------------------------------ *)
(* hexadecimal                                                          *)
Definition nibbles16 : list N := [0;1;2;3;4;5;6;7;8;9;10;11;12;13;14;15].
Lemma nibble_in x : x < 16 -> In x nibbles16.
Proof. intros H. unfold nibbles16. cbn [In]. lia. Qed.

Definition hexdigit_good (x : N) : bool :=
  match unhex_digit (hexdigit_upper x) with Some y => y =? x | None => false end
  && is_upper_hex (hexdigit_upper x) && negb (is_space (hexdigit_upper x)).

Lemma hexdigit_good_all x : x < 16 -> hexdigit_good x = true.
Proof.
  intros H. apply nibble_in in H. revert x H. apply forallb_forall. vm_compute. reflexivity.
Qed.

Lemma unhex_hexdigit_upper x : x < 16 -> unhex_digit (hexdigit_upper x) = Some x.
Proof.
  intros H. pose proof (hexdigit_good_all x H) as G. unfold hexdigit_good in G.
  apply andb_true_iff in G as [G _]. apply andb_true_iff in G as [G _].
  destruct (unhex_digit (hexdigit_upper x)); [|discriminate]. apply N.eqb_eq in G. congruence.
Qed.
Lemma is_upper_hex_hexdigit x : x < 16 -> is_upper_hex (hexdigit_upper x) = true.
Proof.
  intros H. pose proof (hexdigit_good_all x H) as G. unfold hexdigit_good in G.
  apply andb_true_iff in G as [G _]. apply andb_true_iff in G as [_ G]. exact G.
Qed.
Lemma is_space_hexdigit x : x < 16 -> is_space (hexdigit_upper x) = false.
Proof.
  intros H. pose proof (hexdigit_good_all x H) as G. unfold hexdigit_good in G.
  apply andb_true_iff in G as [_ G]. apply negb_true_iff in G. exact G.
Qed.

Lemma hex_upper_cons x b :
  hex_upper (x :: b) = hexdigit_upper (x / 16) :: hexdigit_upper (x mod 16) :: hex_upper b.
Proof. reflexivity. Qed.
Lemma hex_upper_app a b : hex_upper (a ++ b) = hex_upper a ++ hex_upper b.
Proof. unfold hex_upper. apply flat_map_app. Qed.
Lemma hex_upper_length b : length (hex_upper b) = (2 * length b)%nat.
Proof. induction b as [|x b IH]; [reflexivity|]. rewrite hex_upper_cons. cbn [length]. lia. Qed.

Theorem hex_upper_is_upper_hex b : bytes_ok b = true -> forallb is_upper_hex (hex_upper b) = true.
Proof.
  induction b as [|x b IH]; intros H; [reflexivity|].
  apply bytes_ok_cons in H as [Hx Hb]. rewrite hex_upper_cons. cbn [forallb].
  rewrite !is_upper_hex_hexdigit by lia. rewrite IH by assumption. reflexivity.
Qed.
Lemma hex_upper_hexchar b : bytes_ok b = true -> ascii_hexchar (hex_upper b) = true.
Proof. intros H. eapply forallb_impl; [apply is_upper_hex_hexch | apply hex_upper_is_upper_hex, H]. Qed.
Lemma hex_upper_printable b : bytes_ok b = true -> ascii_printable (hex_upper b) = true.
Proof. intros H. eapply forallb_impl; [apply is_upper_hex_print | apply hex_upper_is_upper_hex, H]. Qed.
Lemma hex_upper_alnum b : bytes_ok b = true -> ascii_alphanumeric (hex_upper b) = true.
Proof. intros H. eapply forallb_impl; [apply is_upper_hex_alnum | apply hex_upper_is_upper_hex, H]. Qed.

(* big-endian value as a left fold; equal to [be_int] *)
Definition be_value (b : bytes) : N := fold_left (fun a x => 256 * a + x) b 0.

Lemma le_int_fold l : le_int l = fold_right (fun b r => b + 256 * r) 0 l.
Proof. induction l as [|x l IH]; cbn [le_int fold_right]; congruence. Qed.

Lemma be_value_be_int b : be_value b = be_int b.
Proof.
  unfold be_value, be_int. rewrite le_int_fold, fold_left_rev_right.
  generalize 0. induction b as [|x b IH]; intros a; cbn [fold_left]; [reflexivity|].
  rewrite <- IH. f_equal. lia.
Qed.

Lemma hex_value_fold b : forall acc, bytes_ok b = true ->
  fold_left (fun acc c => 16 * acc + match unhex_digit c with Some v => v | None => 0 end)
            (hex_upper b) acc
  = fold_left (fun a x => 256 * a + x) b acc.
Proof.
  induction b as [|x b IH]; intros acc H; [reflexivity|].
  apply bytes_ok_cons in H as [Hx Hb]. rewrite hex_upper_cons. cbn [fold_left].
  rewrite !unhex_hexdigit_upper by lia. rewrite IH by assumption. f_equal. lia.
Qed.

Theorem int_of_hex_hex_upper b : b <> [] -> bytes_ok b = true ->
  int_of_hex (hex_upper b) = Ok (be_value b).
Proof.
  intros Hne H. unfold int_of_hex. rewrite (hex_upper_hexchar b H).
  unfold hex_value. rewrite hex_value_fold by assumption.
  destruct b as [|x b]; [congruence|]. rewrite hex_upper_cons. reflexivity.
Qed.

Lemma be_bytes_1 v : be_bytes 1 v = [v mod 256].
Proof. reflexivity. Qed.
Lemma be_bytes_2 v : be_bytes 2 v = [v / 256 mod 256; v mod 256].
Proof. reflexivity. Qed.

Lemma be_bytes_bytes_ok n v : bytes_ok (be_bytes n v) = true.
Proof.
  unfold be_bytes, bytes_ok. apply forallb_forall. intros x Hx. apply in_rev in Hx.
  revert v Hx. induction n as [|n IH]; intros v Hx; cbn [le_bytes In] in Hx; [contradiction|].
  destruct Hx as [<-|Hx]; [unfold byte_ok; lia | eapply IH; eassumption].
Qed.

(* codec lemma 2, short form: one byte *)
Theorem int_of_hex_byte v : v < 256 ->
  int_of_hex (hex_upper (be_bytes 1 v)) = Ok v /\ length (hex_upper (be_bytes 1 v)) = 2%nat /\
  ascii_hexchar (hex_upper (be_bytes 1 v)) = true.
Proof.
  intros Hv. split; [|split].
  - rewrite int_of_hex_hex_upper; [|rewrite be_bytes_1; discriminate|apply be_bytes_bytes_ok].
    rewrite be_bytes_1. unfold be_value. cbn [fold_left]. f_equal. lia.
  - reflexivity.
  - apply hex_upper_hexchar, be_bytes_bytes_ok.
Qed.

(* two bytes *)
Theorem int_of_hex_word v : v < 65536 ->
  int_of_hex (hex_upper (be_bytes 2 v)) = Ok v /\ length (hex_upper (be_bytes 2 v)) = 4%nat /\
  ascii_hexchar (hex_upper (be_bytes 2 v)) = true.
Proof.
  intros Hv. split; [|split].
  - rewrite int_of_hex_hex_upper; [|rewrite be_bytes_2; discriminate|apply be_bytes_bytes_ok].
    rewrite be_bytes_2. unfold be_value. cbn [fold_left]. f_equal. lia.
  - reflexivity.
  - apply hex_upper_hexchar, be_bytes_bytes_ok.
Qed.

Lemma to_bytes_be_1 v : v < 256 -> to_bytes_be 1 v = Ok (be_bytes 1 v).
Proof.
  intros H. unfold to_bytes_be. change (256 ^ N.of_nat 1) with 256.
  destruct (N.ltb_spec v 256); [reflexivity|lia].
Qed.
Lemma to_bytes_be_2 v : v < 65536 -> to_bytes_be 2 v = Ok (be_bytes 2 v).
Proof.
  intros H. unfold to_bytes_be. change (256 ^ N.of_nat 2) with 65536.
  destruct (N.ltb_spec v 65536); [reflexivity|lia].
Qed.
Lemma to_bytes_be_2_err v : 65536 <= v -> to_bytes_be 2 v = Err (Crash COverflow).
Proof.
  intros H. unfold to_bytes_be. change (256 ^ N.of_nat 2) with 65536.
  destruct (N.ltb_spec v 65536); [lia|reflexivity].
Qed.
Lemma to_bytes_be_ok k v b : to_bytes_be k v = Ok b -> b = be_bytes k v /\ v < 256 ^ N.of_nat k.
Proof.
  unfold to_bytes_be. destruct (N.ltb_spec v (256 ^ N.of_nat k)); [|discriminate].
  intros E. injection E as <-. auto.
Qed.

(* bytes.fromhex(b.hex().upper()) = b   (used by unwrap on wrap's output) *)
Theorem bytes_fromhex_hex_upper b : bytes_ok b = true -> bytes_fromhex (hex_upper b) = Ok b.
Proof.
  induction b as [|x b IH]; intros H; [reflexivity|].
  apply bytes_ok_cons in H as [Hx Hb]. rewrite hex_upper_cons. cbn [bytes_fromhex].
  rewrite is_space_hexdigit by lia. rewrite !unhex_hexdigit_upper by lia.
  rewrite IH by assumption. cbn [bind]. do 2 f_equal. lia.
Qed.
