(* Lemmas about the model of secrets.choice("ABCDEF") in Entropy.v *)
From Coq Require Import List NArith Arith Lia Bool.
From Coq Require Import ZifyBool ZifyNat ZifyN.
From Psec Require Import Model.Entropy.
Import ListNotations.
Open Scope N_scope.

(* ------------------------------------------------------------------ *)
(* unfolding equations of draw *)

Lemma draw_0 : forall stream, draw stream 0 = Some ([], stream).
Proof. destruct stream; reflexivity. Qed.

Lemma draw_nil_S : forall n, draw [] (S n) = None.
Proof. reflexivity. Qed.

Lemma draw_cons_S : forall b s n,
  draw (b :: s) (S n) =
  if accepted b then
    match draw s n with
    | Some (syms, r) => Some (attempt b :: syms, r)
    | None => None
    end
  else draw s (S n).
Proof. reflexivity. Qed.

Lemma accepted_lt : forall b, accepted b = true -> attempt b < 6.
Proof. intros b H. unfold accepted in H. apply N.ltb_lt. exact H. Qed.

(* ------------------------------------------------------------------ *)
(* 1. specification of draw *)

Definition ends_accepted (n : nat) (used : list N) : Prop :=
  (n = 0%nat -> used = []) /\
  (n <> 0%nat -> exists u b, used = u ++ [b] /\ accepted b = true).

Lemma draw_spec_l : forall stream n syms rest,
  draw stream n = Some (syms, rest) ->
  syms = map attempt (firstn n (filter accepted stream)) /\
  length syms = n /\
  Forall (fun s => s < 6) syms /\
  exists used, stream = used ++ rest /\
               filter accepted used = firstn n (filter accepted stream) /\
               ends_accepted n used.
Proof.
  induction stream as [|b s IH]; intros n syms rest H.
  - destruct n as [|n]; [|discriminate].
    rewrite draw_0 in H. inversion H; subst.
    repeat split; try constructor.
    exists []. repeat split; intros; try reflexivity. congruence.
  - destruct n as [|n].
    + rewrite draw_0 in H. inversion H; subst.
      repeat split; try constructor.
      exists []. repeat split; intros; try reflexivity. congruence.
    + rewrite draw_cons_S in H.
      destruct (accepted b) eqn:Hb.
      * destruct (draw s n) as [[syms' r]|] eqn:Hd; [|discriminate].
        inversion H; subst. clear H.
        destruct (IH _ _ _ Hd) as (H1 & H2 & H3 & used & H4 & H5 & H6 & H7).
        cbn [filter]. rewrite Hb. cbn [firstn map length].
        repeat split.
        -- f_equal. exact H1.
        -- f_equal. exact H2.
        -- constructor; [apply accepted_lt; exact Hb | exact H3].
        -- exists (b :: used). repeat split.
           ++ cbn [app]. f_equal. exact H4.
           ++ cbn [filter]. rewrite Hb. f_equal. exact H5.
           ++ intros; discriminate.
           ++ intros _. destruct n as [|n].
              ** rewrite (H6 eq_refl). exists [], b. split; [reflexivity|exact Hb].
              ** destruct H7 as (u & b' & Hu & Hb'); [discriminate|].
                 exists (b :: u), b'. split; [|exact Hb'].
                 rewrite Hu. reflexivity.
      * destruct (IH _ _ _ H) as (H1 & H2 & H3 & used & H4 & H5 & H6 & H7).
        cbn [filter]. rewrite Hb.
        repeat split; try assumption.
        exists (b :: used). repeat split.
        -- cbn [app]. f_equal. exact H4.
        -- cbn [filter]. rewrite Hb. exact H5.
        -- intros; discriminate.
        -- intros _. destruct H7 as (u & b' & Hu & Hb'); [discriminate|].
           exists (b :: u), b'. split; [|exact Hb'].
           rewrite Hu. reflexivity.
Qed.

(* the consumed prefix is unique: rest is exactly the unconsumed suffix *)
Lemma draw_used_unique : forall stream n syms rest used,
  draw stream n = Some (syms, rest) ->
  stream = used ++ rest ->
  length (filter accepted used) = n /\ ends_accepted n used.
Proof.
  intros stream n syms rest used H Hs.
  destruct (draw_spec_l _ _ _ _ H) as (H1 & H2 & _ & used' & H4 & H5 & H6).
  assert (used = used').
  { rewrite H4 in Hs. apply app_inv_tail in Hs. symmetry. exact Hs. }
  subst used'. split; [|exact H6].
  rewrite H5. rewrite <- (map_length attempt). rewrite <- H1. exact H2.
Qed.

(* ------------------------------------------------------------------ *)
(* 2. failure *)

Lemma draw_none_iff_l : forall stream n,
  draw stream n = None <-> (length (filter accepted stream) < n)%nat.
Proof.
  induction stream as [|b s IH]; intros n.
  - destruct n as [|n].
    + rewrite draw_0. cbn. split; [discriminate|lia].
    + cbn. split; [lia|reflexivity].
  - destruct n as [|n].
    + rewrite draw_0. split; [discriminate|lia].
    + rewrite draw_cons_S. cbn [filter].
      destruct (accepted b) eqn:Hb.
      * cbn [length]. specialize (IH n).
        destruct (draw s n) as [[syms r]|].
        -- split; [discriminate|]. intros H.
           assert (Hx : (length (filter accepted s) < n)%nat) by lia.
           apply IH in Hx. discriminate.
        -- split; [|reflexivity]. intros _.
           assert (Hx : (length (filter accepted s) < n)%nat) by (apply IH; reflexivity).
           lia.
      * apply IH.
Qed.

(* ------------------------------------------------------------------ *)
(* 3. at least n bytes are consumed *)

Lemma filter_length_le' : forall (A : Type) (f : A -> bool) l,
  (length (filter f l) <= length l)%nat.
Proof.
  induction l as [|a l IH]; cbn; [lia|]. destruct (f a); cbn; lia.
Qed.

Lemma draw_consumes_at_least_l : forall stream n syms rest,
  draw stream n = Some (syms, rest) ->
  (length stream - length rest >= n)%nat.
Proof.
  intros stream n syms rest H.
  destruct (draw_spec_l _ _ _ _ H) as (H1 & H2 & _ & used & H4 & H5 & _).
  assert (Hn : length (filter accepted used) = n).
  { rewrite H5. rewrite <- (map_length attempt). rewrite <- H1. exact H2. }
  pose proof (filter_length_le' _ accepted used) as Hle.
  rewrite H4. rewrite app_length. lia.
Qed.

(* ------------------------------------------------------------------ *)
(* 4. counting over one byte *)

Definition all_bytes : list N := map N.of_nat (seq 0 256).

Lemma attempt_uniform_l : forall s, s < 6 ->
  length (filter (fun b => attempt b =? s) all_bytes) = 32%nat.
Proof.
  intros s Hs.
  assert (Hin : In s [0;1;2;3;4;5]).
  { cbn [In].
    assert (s = 0 \/ s = 1 \/ s = 2 \/ s = 3 \/ s = 4 \/ s = 5) as Hc by lia.
    intuition. }
  revert s Hin Hs.
  assert (Hall : forallb (fun s => Nat.eqb
            (length (filter (fun b => attempt b =? s) all_bytes)) 32) [0;1;2;3;4;5] = true)
    by (vm_compute; reflexivity).
  intros s Hin _.
  rewrite forallb_forall in Hall. specialize (Hall s Hin).
  apply Nat.eqb_eq in Hall. exact Hall.
Qed.

Lemma accepted_count_l : length (filter accepted all_bytes) = 192%nat.
Proof. vm_compute. reflexivity. Qed.

Lemma in_all_bytes : forall b, In b all_bytes <-> b < 256.
Proof.
  intros b. unfold all_bytes. rewrite in_map_iff. split.
  - intros (x & Hx & Hin). apply in_seq in Hin. lia.
  - intros H. exists (N.to_nat b). split; [apply N2Nat.id|].
    apply in_seq. lia.
Qed.

Lemma attempt_range_l : forall b, b < 256 -> attempt b < 8.
Proof.
  intros b Hb. apply in_all_bytes in Hb.
  assert (Hall : forallb (fun b => attempt b <? 8) all_bytes = true)
    by (vm_compute; reflexivity).
  rewrite forallb_forall in Hall. specialize (Hall b Hb).
  apply N.ltb_lt. exact Hall.
Qed.

(* ------------------------------------------------------------------ *)
(* 5. word-level uniformity *)

Fixpoint words (n : nat) : list (list N) :=
  match n with
  | O => [[]]
  | S n' => flat_map (fun b => map (cons b) (words n')) all_bytes
  end.

Fixpoint list_N_eqb (a b : list N) : bool :=
  match a, b with
  | [], [] => true
  | x :: a', y :: b' => (x =? y) && list_N_eqb a' b'
  | _, _ => false
  end.

Lemma list_N_eqb_spec : forall a b, list_N_eqb a b = true <-> a = b.
Proof.
  induction a as [|x a IH]; destruct b as [|y b]; cbn; split; intros H;
    try reflexivity; try discriminate.
  - apply andb_true_iff in H. destruct H as [H1 H2].
    apply N.eqb_eq in H1. apply IH in H2. subst. reflexivity.
  - inversion H; subst. apply andb_true_iff. split; [apply N.eqb_refl|].
    apply IH. reflexivity.
Qed.

Lemma list_N_eqb_reflect : forall a b, reflect (a = b) (list_N_eqb a b).
Proof.
  intros a b. apply iff_reflect. symmetry. apply list_N_eqb_spec.
Qed.

Lemma words_length : forall n bs, In bs (words n) -> length bs = n.
Proof.
  induction n as [|n IH]; intros bs H.
  - cbn in H. destruct H as [H|[]]. subst. reflexivity.
  - cbn [words] in H. apply in_flat_map in H. destruct H as (b & _ & H).
    apply in_map_iff in H. destruct H as (bs' & Hbs & Hin). subst.
    cbn. f_equal. apply IH. exact Hin.
Qed.

Lemma words_complete : forall bs, Forall (fun b => b < 256) bs -> In bs (words (length bs)).
Proof.
  induction bs as [|b bs IH]; intros H.
  - left. reflexivity.
  - inversion H; subst. cbn [length words]. apply in_flat_map.
    exists b. split; [apply in_all_bytes; assumption|].
    apply in_map. apply IH. assumption.
Qed.

Lemma filter_flat_map : forall (A B : Type) (p : B -> bool) (f : A -> list B) l,
  filter p (flat_map f l) = flat_map (fun x => filter p (f x)) l.
Proof.
  induction l as [|a l IH]; cbn; [reflexivity|].
  rewrite filter_app. rewrite IH. reflexivity.
Qed.

Lemma filter_map_comm : forall (A B : Type) (p : B -> bool) (g : A -> B) l,
  filter p (map g l) = map g (filter (fun x => p (g x)) l).
Proof.
  induction l as [|a l IH]; cbn; [reflexivity|].
  destruct (p (g a)); cbn; rewrite IH; reflexivity.
Qed.

Lemma flat_map_length_cond : forall (A B : Type) (q : A -> bool) (K : nat)
    (f : A -> list B) l,
  (forall x, length (f x) = if q x then K else 0%nat) ->
  length (flat_map f l) = (length (filter q l) * K)%nat.
Proof.
  intros A B q K f l Hf.
  induction l as [|a l IH]; cbn; [reflexivity|].
  rewrite app_length. rewrite IH. rewrite Hf.
  destruct (q a); cbn; lia.
Qed.

Definition hits (w : list N) (bs : list N) : bool :=
  forallb accepted bs && list_N_eqb (map attempt bs) w.

Lemma hits_cons : forall s w b bs, s < 6 ->
  hits (s :: w) (b :: bs) = (attempt b =? s) && hits w bs.
Proof.
  intros s w b bs Hs. unfold hits. cbn [forallb map list_N_eqb].
  destruct (attempt b =? s) eqn:He.
  - apply N.eqb_eq in He.
    assert (Ha : accepted b = true).
    { unfold accepted. apply N.ltb_lt. rewrite He. exact Hs. }
    rewrite Ha. reflexivity.
  - rewrite andb_false_r. reflexivity.
Qed.

Lemma filter_false : forall (A : Type) (l : list A), filter (fun _ => false) l = [].
Proof. induction l; cbn; auto. Qed.

Lemma draw_uniform_l : forall (w : list N), Forall (fun s => s < 6) w ->
  length (filter (fun bs => forallb accepted bs && list_N_eqb (map attempt bs) w)
                 (words (length w))) = Nat.pow 32 (length w).
Proof.
  intros w. change (fun bs => forallb accepted bs && list_N_eqb (map attempt bs) w)
    with (hits w).
  induction w as [|s w IH]; intros H.
  - reflexivity.
  - inversion H as [|? ? Hs Hw]; subst. specialize (IH Hw).
    cbn [length words]. rewrite filter_flat_map.
    rewrite (flat_map_length_cond _ _ (fun b => attempt b =? s) (Nat.pow 32 (length w))).
    + rewrite (attempt_uniform_l s Hs). rewrite Nat.pow_succ_r'. reflexivity.
    + intros b. rewrite filter_map_comm. rewrite map_length.
      rewrite (filter_ext _ (fun bs => (attempt b =? s) && hits w bs)).
      2:{ intros bs. apply hits_cons. exact Hs. }
      destruct (attempt b =? s); cbn [andb].
      * exact IH.
      * rewrite filter_false. reflexivity.
Qed.

(* ------------------------------------------------------------------ *)
(* 6. connection with draw *)

Lemma draw_of_accepted_word_app_l : forall bs rest, forallb accepted bs = true ->
  draw (bs ++ rest) (length bs) = Some (map attempt bs, rest).
Proof.
  induction bs as [|b bs IH]; intros rest H.
  - cbn [app length map]. apply draw_0.
  - cbn [forallb] in H. apply andb_true_iff in H. destruct H as [Hb Hbs].
    cbn [app length map]. rewrite draw_cons_S. rewrite Hb.
    rewrite (IH rest Hbs). reflexivity.
Qed.

Lemma draw_of_accepted_word_l : forall bs, forallb accepted bs = true ->
  draw bs (length bs) = Some (map attempt bs, []).
Proof.
  intros bs H. pose proof (draw_of_accepted_word_app_l bs [] H) as Hd.
  rewrite app_nil_r in Hd. exact Hd.
Qed.

(* 5 restated through draw: among the byte strings of length n, exactly 32^n make
   draw return the word w after consuming everything without a rejection *)
Definition draws_exactly (w bs : list N) : bool :=
  match draw bs (length w) with
  | Some (syms, []) => list_N_eqb syms w
  | _ => false
  end.

Lemma draws_exactly_hits : forall w bs, length bs = length w ->
  draws_exactly w bs = hits w bs.
Proof.
  intros w bs Hl. unfold draws_exactly, hits.
  destruct (forallb accepted bs) eqn:Ha.
  - rewrite <- Hl. rewrite (draw_of_accepted_word_l bs Ha). reflexivity.
  - cbn [andb].
    destruct (draw bs (length w)) as [[syms rest]|] eqn:Hd; [|reflexivity].
    destruct rest as [|r rest]; [|reflexivity].
    exfalso.
    destruct (draw_spec_l _ _ _ _ Hd) as (H1 & H2 & _ & used & H4 & H5 & _).
    rewrite app_nil_r in H4. subst used.
    assert (Hlen : length (filter accepted bs) = length bs).
    { rewrite H5 at 1. rewrite <- (map_length attempt). rewrite <- H1. lia. }
    assert (Hall : forallb accepted bs = true).
    { clear -Hlen. induction bs as [|b bs IH]; [reflexivity|].
      cbn [filter forallb length] in *.
      pose proof (filter_length_le' _ accepted bs).
      destruct (accepted b); cbn [length] in Hlen; [|lia].
      apply IH. lia. }
    congruence.
Qed.

Lemma draw_uniform_draw_l : forall (w : list N), Forall (fun s => s < 6) w ->
  length (filter (draws_exactly w) (words (length w))) = Nat.pow 32 (length w).
Proof.
  intros w H. rewrite <- (draw_uniform_l w H).
  f_equal. apply filter_ext_in. intros bs Hin.
  apply draws_exactly_hits. apply words_length. exact Hin.
Qed.
