(* Shared predicates for the TR-31 theorems: what a Header object reachable
   through the public API looks like. *)
From Psec Require Import Lib.Base Cipher.Cipher Model.Tr31.

Definition field_ok (n : nat) (s : str) : Prop :=
  length s = n /\ ascii_alphanumeric s = true.

(* an optional block a caller can have inserted through Blocks.__setitem__,
   other than a pad block in the library's own sense *)
Definition block_entry_ok (e : str * str) : Prop :=
  length (fst e) = 2%nat /\ ascii_alphanumeric (fst e) = true /\
  is_pad_id (fst e) = false /\ ascii_printable (snd e) = true.

Definition header_ok (h : header) : Prop :=
  version_supported (version_id h) = true /\
  field_ok 2 (key_usage h) /\ field_ok 1 (algorithm h) /\ field_ok 1 (mode_of_use h) /\
  field_ok 2 (version_num h) /\ field_ok 1 (exportability h) /\ field_ok 2 (reserved h) /\
  Forall block_entry_ok (blocks h) /\ NoDup (map fst (blocks h)).

(* what the theorems assume of the two cipher parameters *)
Record ciphers_ok (cd ca : cipher) : Prop := {
  cd_ok : cipher_ok cd; ca_ok : cipher_ok ca;
  cd_bs : bs cd = 8%nat; ca_bs : bs ca = 16%nat;
  cd_keys : forall k, valid_key cd k = tdes_valid_key k;
  ca_keys : forall k, valid_key ca k = aes_valid_key k
}.

Definition ascii_str (s : str) : Prop := forallb (fun c => N.ltb c 128) s = true.
