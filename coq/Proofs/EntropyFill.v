(* The format 3 fill as a function of the OS random bytes: psec draws ten symbols with secrets.choice("ABCDEF")
   (Model/Entropy.v: rejection sampling on byte >> 5), the block carries the first 14 - len(pin) of them. *)
From Coq Require Import List NArith Arith Lia Bool.
From Psec Require Import Lib.Base Model.Pinblock Model.Entropy Proofs.EntropyLemmas Proofs.DomainLemmas
  Proofs.DomainPinblock Proofs.TapeLemmas.
Import ListNotations.
Open Scope N_scope.

Lemma choices_af syms : Forall (fun s => s < 6) syms -> af_str (choices_of_syms syms).
Proof.
  unfold af_str, choices_of_syms. intros H. rewrite Forall_map.
  eapply Forall_impl; [|exact H]. cbv beta. intros a Ha. lia.
Qed.

Lemma choices_length syms : length (choices_of_syms syms) = length syms.
Proof. unfold choices_of_syms. apply map_length. Qed.

Lemma choices10_spec stream ch rest :
  choices10 stream = Some (ch, rest) ->
  ch = choices_of_syms (map attempt (firstn 10 (filter accepted stream))) /\
  length ch = 10%nat /\ af_str ch /\
  exists used, stream = used ++ rest /\ filter accepted used = firstn 10 (filter accepted stream).
Proof.
  unfold choices10. destruct (draw stream 10) as [[syms r]|] eqn:D; [|discriminate].
  intros E. injection E as <- <-.
  destruct (draw_spec_l _ _ _ _ D) as (Hs & Hl & Hf & used & Hu & Hacc & _).
  split; [rewrite Hs; reflexivity|]. split; [rewrite choices_length; exact Hl|].
  split; [apply choices_af; exact Hf|]. exists used. split; assumption.
Qed.

(* the fill of a format 3 block, read through the model's decoding view, is determined by the OS bytes *)
Lemma format3_fill_from_os_bytes pin pan stream ch rest :
  dom_pin pin -> dom_pan13 pan -> choices10 stream = Some (ch, rest) ->
  exists block pb,
    encode_pinblock_iso_3 pin pan ch = Ok block /\ pan_block pan = Ok pb /\
    skipn (2 + length pin) (hex_upper (py_xor block pb)) =
      firstn (14 - length pin) (choices_of_syms (map attempt (firstn 10 (filter accepted stream)))).
Proof.
  intros Hpin Hpan Hc. destruct (choices10_spec _ _ _ Hc) as (Hch & Hl & Haf & _).
  destruct (format3_alphabet pin pan ch Hpin Hpan Hl Haf) as (block & pb & He & Hp & _ & _ & Hs & _).
  exists block, pb. split; [exact He|]. split; [exact Hp|]. rewrite Hs, Hch. reflexivity.
Qed.
