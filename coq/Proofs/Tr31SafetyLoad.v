(* C15, part 2: Blocks.load / Header.load raise HeaderError only, consume ASCII
   characters only, and keep the header object well formed - also when they fail. *)
From Coq Require Import Lia ZifyBool ZifyNat ZifyN.
From Psec Require Import Lib.Base Cipher.Cipher Model.Tr31
  Proofs.XorLemmas Proofs.Tr31Defs Proofs.Tr31SafetyBase.
Ltac Zify.zify_post_hook ::= Z.to_euclidean_division_equations.
Open Scope N_scope.

(* what every Header object reachable through the API satisfies: [header_ok]
   without the two premises about pad ids and duplicate ids *)
Definition entry_wf (e : str * str) : Prop :=
  length (fst e) = 2%nat /\ ascii_alphanumeric (fst e) = true /\ ascii_printable (snd e) = true.

Definition header_wf (h : header) : Prop :=
  version_supported (version_id h) = true /\
  field_ok 2 (key_usage h) /\ field_ok 1 (algorithm h) /\ field_ok 1 (mode_of_use h) /\
  field_ok 2 (version_num h) /\ field_ok 1 (exportability h) /\ field_ok 2 (reserved h) /\
  Forall entry_wf (blocks h).

Lemma header_ok_wf h : header_ok h -> header_wf h.
Proof.
  intros (V & A & B & C & D & E & F & G & _). repeat (split; [assumption|]).
  eapply Forall_impl; [|exact G]. intros e (L & I & _ & P). repeat split; assumption.
Qed.

Lemma default_header_wf : header_wf default_header.
Proof. unfold header_wf, field_ok. cbn. repeat split; constructor. Qed.

(* ------------------------------------------------------------------ *)
(* Blocks.__setitem__, dict                                             *)
Lemma dict_set_wf k v d : ascii_printable v = true -> entry_wf (k, v) ->
  Forall entry_wf d -> Forall entry_wf (dict_set k v d).
Proof.
  intros Hv Hkv. induction d as [|[k' v'] d IH]; intros Hd; cbn [dict_set].
  - constructor; [exact Hkv | constructor].
  - inversion Hd as [|? ? H1 H2]; subst. destruct (list_eqb k k').
    + constructor; [|exact H2]. destruct H1 as (L & I & _). repeat split; assumption.
    + constructor; [exact H1 | apply IH; exact H2].
Qed.

Lemma dict_remove_wf k d : Forall entry_wf d -> Forall entry_wf (dict_remove k d).
Proof.
  induction d as [|[k' v'] d IH]; intros Hd; cbn [dict_remove]; [constructor|].
  inversion Hd as [|? ? H1 H2]; subst. destruct (list_eqb k k'); [exact H2|].
  constructor; [exact H1 | apply IH; exact H2].
Qed.

Lemma blocks_setitem_spec id data acc :
  blocks_setitem id data acc = Err HeaderError \/
  (exists acc', blocks_setitem id data acc = Ok acc' /\ length id = 2%nat /\
                ascii_alphanumeric id = true /\ ascii_printable data = true /\
                (Forall entry_wf acc -> Forall entry_wf acc')).
Proof.
  unfold blocks_setitem.
  destruct (Nat.eqb_spec (length id) 2) as [L|L]; cbn [negb orb]; [|left; reflexivity].
  destruct (ascii_alphanumeric id) eqn:I; cbn [negb]; [|left; reflexivity].
  destruct (ascii_printable data) eqn:P; cbn [negb]; [|left; reflexivity].
  right. eexists. split; [reflexivity|]. repeat split; try assumption.
  intros F. apply dict_set_wf; [exact P| |exact F]. repeat split; assumption.
Qed.

Lemma pad_id_ascii id : is_pad_id id = true -> forallb is_ascii id = true.
Proof.
  destruct id as [|a [|b [|? ?]]]; try discriminate. unfold is_pad_id, is_ascii. cbn [forallb]. lia.
Qed.

(* ------------------------------------------------------------------ *)
(* block length field                                                   *)
Definition ext_len (bl0 : N) (rest2 : str) : res (Z * str * nat) :=
  if bl0 =? 0 then parse_extended_len rest2 else Ok ((Z.of_N bl0 - 4)%Z, rest2, 0%nat).

Lemma skipn_add {A} a b (l : list A) : skipn (a + b) l = skipn b (skipn a l).
Proof.
  revert l. induction a as [|a IH]; intros l; [reflexivity|].
  destruct l as [|x l]; [cbn; rewrite skipn_nil; reflexivity|]. cbn [Nat.add skipn]. apply IH.
Qed.

Lemma parse_extended_len_spec rest :
  parse_extended_len rest = Err HeaderError \/
  (exists bl used, parse_extended_len rest = Ok (bl, skipn used rest, used) /\
                   (used <= length rest)%nat /\ forallb is_ascii (firstn used rest) = true).
Proof.
  unfold parse_extended_len.
  destruct (Nat.eqb_spec (length (firstn 2 rest)) 2) as [L|L]; cbn [negb orb]; [|left; reflexivity].
  destruct (ascii_hexchar (firstn 2 rest)) eqn:H; cbn [negb]; [|left; reflexivity].
  rewrite int_of_hex_ok by (try exact H; eapply length_nonnil; exact L). cbn [bind].
  set (ll := hex_value (firstn 2 rest)).
  destruct (N.eqb_spec (2 * ll) 0) as [Z0|Z0]; [left; reflexivity|].
  set (blln := N.to_nat (2 * ll)).
  destruct (Nat.eqb_spec (length (firstn blln (skipn 2 rest))) blln) as [L2|L2]; cbn [negb orb];
    [|left; reflexivity].
  destruct (ascii_hexchar (firstn blln (skipn 2 rest))) eqn:H2; cbn [negb]; [|left; reflexivity].
  assert (blln <> 0%nat) by (unfold blln; lia).
  rewrite int_of_hex_ok; [|destruct (firstn blln (skipn 2 rest)); [cbn in L2; lia | congruence] | exact H2].
  cbn [bind]. right. eexists. exists (2 + blln)%nat.
  rewrite <- skipn_add. split; [reflexivity|].
  rewrite firstn_length in L. rewrite firstn_length, skipn_length in L2.
  split; [lia|].
  rewrite firstn_add, forallb_app. apply andb_true_iff. split; apply hexch_ascii; assumption.
Qed.

Lemma ext_len_spec bl0 rest2 :
  ext_len bl0 rest2 = Err HeaderError \/
  (exists bl used, ext_len bl0 rest2 = Ok (bl, skipn used rest2, used) /\
                   (used <= length rest2)%nat /\ forallb is_ascii (firstn used rest2) = true).
Proof.
  unfold ext_len. destruct (bl0 =? 0); [apply parse_extended_len_spec|].
  right. eexists. exists 0%nat. split; [reflexivity|]. split; [lia | reflexivity].
Qed.

(* ------------------------------------------------------------------ *)
(* Blocks.load                                                          *)
Definition load_post (r : dict * res nat) (consumed : nat) (rest : str) : Prop :=
  Forall entry_wf (fst r) /\ safe (snd r) /\
  (forall c', snd r = Ok c' ->
     (consumed <= c')%nat /\ (c' - consumed <= length rest)%nat /\
     forallb is_ascii (firstn (c' - consumed) rest) = true).

Lemma load_post_fail acc consumed rest : Forall entry_wf acc ->
  load_post (acc, Err HeaderError) consumed rest.
Proof. intros H. split; [exact H|]. split; [exact I|]. intros c' D. discriminate D. Qed.

Lemma glue rest used k c' consumed :
  length (firstn 2 rest) = 2%nat -> length (firstn 2 (skipn 2 rest)) = 2%nat ->
  forallb is_ascii (firstn 2 rest) = true -> forallb is_ascii (firstn 2 (skipn 2 rest)) = true ->
  (used <= length (skipn 2 (skipn 2 rest)))%nat ->
  forallb is_ascii (firstn used (skipn 2 (skipn 2 rest))) = true ->
  (k <= length (skipn used (skipn 2 (skipn 2 rest))))%nat ->
  forallb is_ascii (firstn k (skipn used (skipn 2 (skipn 2 rest)))) = true ->
  (consumed + 4 + used + k <= c')%nat ->
  (c' - (consumed + 4 + used + k) <= length (skipn k (skipn used (skipn 2 (skipn 2 rest)))))%nat ->
  forallb is_ascii (firstn (c' - (consumed + 4 + used + k))
                           (skipn k (skipn used (skipn 2 (skipn 2 rest))))) = true ->
  (consumed <= c')%nat /\ (c' - consumed <= length rest)%nat /\
  forallb is_ascii (firstn (c' - consumed) rest) = true.
Proof.
  intros L1 L2 A1 A2 U AU K AK C LM AM.
  rewrite firstn_length in L1. rewrite firstn_length, skipn_length in L2.
  rewrite !skipn_length in *.
  split; [lia|]. split; [lia|].
  replace (c' - consumed)%nat with (2 + (2 + (used + (k + (c' - (consumed + 4 + used + k))))))%nat by lia.
  rewrite (firstn_add 2), (firstn_add 2), (firstn_add used), (firstn_add k).
  rewrite !forallb_app, A1, A2, AU, AK, AM. reflexivity.
Qed.

Lemma blocks_load_aux_inv n : forall rest consumed acc, Forall entry_wf acc ->
  load_post (blocks_load_aux n rest consumed acc) consumed rest.
Proof.
  induction n as [|n IH]; intros rest consumed acc Hacc.
  - cbn [blocks_load_aux]. split; [exact Hacc|]. split; [exact I|].
    intros c' E. cbn [snd] in E. injection E as <-. rewrite Nat.sub_diag. cbn [firstn forallb].
    repeat split; lia.
  - cbn [blocks_load_aux].
    set (rest2 := skipn 2 (skipn 2 rest)).
    destruct (Nat.eqb_spec (length (firstn 2 rest)) 2) as [L1|L1]; cbn [negb];
      [|apply load_post_fail; exact Hacc].
    destruct (Nat.eqb_spec (length (firstn 2 (skipn 2 rest))) 2) as [L2|L2]; cbn [negb orb];
      [|apply load_post_fail; exact Hacc].
    destruct (ascii_hexchar (firstn 2 (skipn 2 rest))) eqn:H2; cbn [negb];
      [|apply load_post_fail; exact Hacc].
    rewrite int_of_hex_ok by (try exact H2; eapply length_nonnil; exact L2).
    change (if hex_value (firstn 2 (skipn 2 rest)) =? 0 then parse_extended_len rest2
            else Ok ((Z.of_N (hex_value (firstn 2 (skipn 2 rest))) - 4)%Z, rest2, 0%nat))
      with (ext_len (hex_value (firstn 2 (skipn 2 rest))) rest2).
    destruct (ext_len_spec (hex_value (firstn 2 (skipn 2 rest))) rest2)
      as [E|(bl & used & E & U & AU)]; rewrite E; [apply load_post_fail; exact Hacc|].
    destruct (bl <? 0)%Z; [apply load_post_fail; exact Hacc|].
    destruct (N.ltb_spec (lenN (skipn used rest2)) (Z.to_N bl)) as [LK|LK];
      [apply load_post_fail; exact Hacc|].
    set (k := N.to_nat (Z.to_N bl)) in *.
    assert (K : (k <= length (skipn used rest2))%nat) by (unfold lenN in LK; lia).
    destruct (is_pad_id (firstn 2 rest)) eqn:Hpad.
    + destruct (ascii_printable (firstn k (skipn used rest2))) eqn:P; cbn [negb];
        [|apply load_post_fail; exact Hacc].
      destruct (IH (skipn k (skipn used rest2)) (consumed + 4 + used + k)%nat acc Hacc)
        as (F & S & C).
      split; [exact F|]. split; [exact S|]. intros c' Ec. destruct (C c' Ec) as (C1 & C2 & C3).
      apply (glue rest used k c' consumed); try assumption.
      * apply pad_id_ascii; exact Hpad.
      * apply hexch_ascii; exact H2.
      * apply print_ascii; exact P.
    + destruct (blocks_setitem_spec (firstn 2 rest) (firstn k (skipn used rest2)) acc)
        as [Es|(acc' & Es & _ & I & P & W)]; rewrite Es; [apply load_post_fail; exact Hacc|].
      destruct (IH (skipn k (skipn used rest2)) (consumed + 4 + used + k)%nat acc' (W Hacc))
        as (F & S & C).
      split; [exact F|]. split; [exact S|]. intros c' Ec. destruct (C c' Ec) as (C1 & C2 & C3).
      apply (glue rest used k c' consumed); try assumption.
      * apply alnum_ascii; exact I.
      * apply hexch_ascii; exact H2.
      * apply print_ascii; exact P.
Qed.

Lemma blocks_load_inv n s : load_post (blocks_load n s) 0 s.
Proof. apply blocks_load_aux_inv. constructor. Qed.

(* ------------------------------------------------------------------ *)
(* Header.load                                                          *)
Lemma field_check n v :
  negb (length v =? n)%nat || negb (ascii_alphanumeric v) = false -> field_ok n v.
Proof.
  intros H. apply orb_false_iff in H as [H1 H2]. apply negb_false_iff in H1, H2.
  apply Nat.eqb_eq in H1. split; assumption.
Qed.

Lemma alnum_slice a n s : (a + n <= 16)%nat -> ascii_alphanumeric (firstn 16 s) = true ->
  ascii_alphanumeric (slice a n s) = true.
Proof.
  intros L H. unfold slice, ascii_alphanumeric in *.
  replace 16%nat with (a + (n + (16 - a - n)))%nat in H by lia.
  rewrite !firstn_add, !forallb_app, !andb_true_iff in H. tauto.
Qed.

Lemma slice_length a n (s : str) : (a + n <= length s)%nat -> length (slice a n s) = n.
Proof. intros L. unfold slice. rewrite firstn_length, skipn_length. lia. Qed.

Definition hload_post (h : header) (s : str) (r : header * res nat) : Prop :=
  safe (snd r) /\
  (header_wf h -> header_wf (fst r)) /\
  (version_supported (version_id h) = true -> version_supported (version_id (fst r)) = true) /\
  (forall n, snd r = Ok n ->
     header_wf (fst r) /\ (16 <= n <= length s)%nat /\ forallb is_ascii (firstn n s) = true).

Ltac wf_done :=
  unfold header_wf; cbn [version_id key_usage algorithm mode_of_use version_num exportability
                         reserved blocks];
  refine (conj _ (conj _ (conj _ (conj _ (conj _ (conj _ (conj _ _))))))); assumption.

Ltac hload_fail :=
  split; [exact I|]; split; [intros _; cbn [fst]; wf_done|];
  split; [intros _; cbn [fst version_id]; assumption | intros ? D; discriminate D].

Lemma header_load_inv h s : hload_post h s (header_load h s).
Proof.
  destruct h as [a b c d e f g k].
  unfold header_load, header_load_with.
  destruct (ascii_alphanumeric (firstn 16 s)) eqn:AN; cbn [negb].
  2:{ split; [exact I|]. split; [intros H; exact H|]. split; [intros H; exact H | intros ? D; discriminate D]. }
  destruct (Nat.ltb_spec (length s) 16) as [LS|LS].
  { split; [exact I|]. split; [intros H; exact H|]. split; [intros H; exact H | intros ? D; discriminate D]. }
  cbn [set_field field_len version_id key_usage algorithm mode_of_use version_num
       exportability reserved blocks].
  destruct (version_supported (slice 0 1 s)) eqn:V.
  2:{ split; [exact I|]. split; [intros H; exact H|]. split; [intros H; exact H | intros ? D; discriminate D]. }
  (* from here on the stored version is the new, supported one *)
  unfold hload_post. cbn [version_id key_usage algorithm mode_of_use version_num exportability
                          reserved blocks].
  assert (Hwf : header_wf (mkHeader a b c d e f g k) ->
          field_ok 2 b /\ field_ok 1 c /\ field_ok 1 d /\ field_ok 2 e /\ field_ok 1 f /\
          field_ok 2 g /\ Forall entry_wf k).
  { intros (_ & H). exact H. }
  destruct (negb (length (slice 5 2 s) =? 2)%nat || negb (ascii_alphanumeric (slice 5 2 s))) eqn:C1.
  { split; [exact I|]. split; [intros H; apply Hwf in H as (? & ? & ? & ? & ? & ? & ?); cbn [fst]; wf_done|].
    split; [intros _; exact V | intros ? D; discriminate D]. }
  apply field_check in C1.
  cbn [set_field field_len version_id key_usage algorithm mode_of_use version_num
       exportability reserved blocks].
  destruct (negb (length (slice 7 1 s) =? 1)%nat || negb (ascii_alphanumeric (slice 7 1 s))) eqn:C2.
  { split; [exact I|]. split; [intros H; apply Hwf in H as (? & ? & ? & ? & ? & ? & ?); cbn [fst]; wf_done|].
    split; [intros _; exact V | intros ? D; discriminate D]. }
  apply field_check in C2.
  cbn [set_field field_len version_id key_usage algorithm mode_of_use version_num
       exportability reserved blocks].
  destruct (negb (length (slice 8 1 s) =? 1)%nat || negb (ascii_alphanumeric (slice 8 1 s))) eqn:C3.
  { split; [exact I|]. split; [intros H; apply Hwf in H as (? & ? & ? & ? & ? & ? & ?); cbn [fst]; wf_done|].
    split; [intros _; exact V | intros ? D; discriminate D]. }
  apply field_check in C3.
  cbn [set_field field_len version_id key_usage algorithm mode_of_use version_num
       exportability reserved blocks].
  destruct (negb (length (slice 9 2 s) =? 2)%nat || negb (ascii_alphanumeric (slice 9 2 s))) eqn:C4.
  { split; [exact I|]. split; [intros H; apply Hwf in H as (? & ? & ? & ? & ? & ? & ?); cbn [fst]; wf_done|].
    split; [intros _; exact V | intros ? D; discriminate D]. }
  apply field_check in C4.
  cbn [set_field field_len version_id key_usage algorithm mode_of_use version_num
       exportability reserved blocks].
  destruct (negb (length (slice 11 1 s) =? 1)%nat || negb (ascii_alphanumeric (slice 11 1 s))) eqn:C5.
  { split; [exact I|]. split; [intros H; apply Hwf in H as (? & ? & ? & ? & ? & ? & ?); cbn [fst]; wf_done|].
    split; [intros _; exact V | intros ? D; discriminate D]. }
  apply field_check in C5.
  cbn [set_field field_len version_id key_usage algorithm mode_of_use version_num
       exportability reserved blocks set_reserved set_blocks].
  assert (C6 : field_ok 2 (slice 14 2 s)).
  { split; [apply slice_length; lia | apply alnum_slice; [lia | exact AN]]. }
  destruct (ascii_numeric (slice 12 2 s)) eqn:NUM; cbn [negb].
  2:{ split; [exact I|]. split; [intros H; apply Hwf in H as (? & ? & ? & ? & ? & ? & ?); cbn [fst]; wf_done|].
      split; [intros _; exact V | intros ? D; discriminate D]. }
  rewrite int_of_dec_ok; [| eapply length_nonnil; apply slice_length; lia | exact NUM].
  pose proof (blocks_load_inv (N.to_nat (dec_value (slice 12 2 s))) (skipn 16 s)) as (F & S & C).
  destruct (blocks_load (N.to_nat (dec_value (slice 12 2 s))) (skipn 16 s)) as [dct r].
  cbn [fst snd] in *.
  assert (W : header_wf (mkHeader (slice 0 1 s) (slice 5 2 s) (slice 7 1 s) (slice 8 1 s)
                                  (slice 9 2 s) (slice 11 1 s) (slice 14 2 s) dct)) by wf_done.
  split; [destruct r as [n|er]; [exact I | exact S]|].
  split; [intros _; exact W|]. split; [intros _; exact V|].
  intros n E. split; [exact W|]. destruct r as [c'|er]; [|discriminate E].
  assert (En : (16 + c')%nat = n) by (cbn [bind] in E; congruence). rewrite <- En. clear En E.
  destruct (C c' eq_refl) as (_ & C2' & C3'). rewrite Nat.sub_0_r, skipn_length in *.
  split; [lia|]. rewrite firstn_add, forallb_app, C3'.
  rewrite (alnum_ascii _ AN). reflexivity.
Qed.

Theorem header_load_safe h s : safe (snd (header_load h s)).
Proof. apply header_load_inv. Qed.

Theorem header_load_wf h s : header_wf h -> header_wf (fst (header_load h s)).
Proof. apply header_load_inv. Qed.

Theorem header_load_version h s : version_supported (version_id h) = true ->
  version_supported (version_id (fst (header_load h s))) = true.
Proof. apply header_load_inv. Qed.

Theorem header_load_ok h s n : snd (header_load h s) = Ok n ->
  header_wf (fst (header_load h s)) /\ (16 <= n <= length s)%nat /\
  forallb is_ascii (firstn n s) = true.
Proof. apply header_load_inv. Qed.
