(* Write-effect summaries of the psec source (regenerated from /repo on every
   run into Gen/Effects.v by harness/effects.py) and the purity policy that is
   re-checked against them. *)
From Coq Require Import List String Bool.
Import ListNotations.
Open Scope string_scope.

(* who owns the object an effect touches *)
Inductive owner :=
| OLocal                      (* a local name is (re)bound *)
| OFresh                      (* an object created inside this call *)
| OSelf                       (* attribute / element of self or of an object reachable from self *)
| OParam (i : nat)            (* the i-th parameter (other than self) or an object reachable from it *)
| OModule (name : string)     (* a module- or class-level object *)
| OUnknown (what : string).   (* anything the translator does not understand *)

Inductive effect :=
| EWrite (o : owner)                         (* assignment, augmented assignment, del, in-place mutator *)
| ECallMethod (recv : owner) (m : string)    (* call of a psec-defined method on a receiver *)
| ECallPsec (f : string)                     (* call of a psec function *)
| ECallPure (f : string)                     (* call of an allow-listed pure builtin / library function *)
| ECallEntropy (f : string)                  (* os.urandom / secrets.choice *)
| ECallUnknown (f : string)
| EDeclGlobal (n : string).                  (* global / nonlocal declaration *)

Record fn_summary := { fn_name : string; fn_method : string; fn_private : bool; fn_effects : list effect }.

Definition str_in (s : string) (l : list string) : bool := existsb (String.eqb s) l.

(* the only functions allowed to write to self *)
Definition mutators : list string :=
  [ "tr31.Blocks.__init__"; "tr31.Blocks.__setitem__"; "tr31.Blocks.__delitem__"; "tr31.Blocks.load";
    "tr31.Header.__init__"; "tr31.Header.version_id.setter"; "tr31.Header.key_usage.setter";
    "tr31.Header.algorithm.setter"; "tr31.Header.mode_of_use.setter"; "tr31.Header.version_num.setter";
    "tr31.Header.exportability.setter"; "tr31.Header.load";
    "tr31.KeyBlock.__init__"; "tr31.KeyBlock.unwrap" ].

(* psec method names whose call mutates the receiver *)
Definition mutating_methods : list string := [ "load"; "unwrap"; "__setitem__"; "__delitem__"; "clear" ].

(* functions that may draw OS entropy (the randomised encoders and the wrap methods) *)
Definition entropy_users : list string :=
  [ "pinblock.encode_pinblock_iso_3"; "pinblock.encode_pin_field_iso_4";
    "tr31.KeyBlock._b_wrap"; "tr31.KeyBlock._c_wrap"; "tr31.KeyBlock._d_wrap" ].

Definition is_self (o : owner) : bool := match o with OSelf => true | _ => false end.

Definition writes_self (f : fn_summary) : bool :=
  existsb (fun e => match e with EWrite OSelf => true | _ => false end) (fn_effects f).

(* Private helpers of the two mutable container classes that write to self are "derived mutators": allowed,
   provided their callers are mutators - which the rule on mutating method calls below enforces, because the
   helper's bare name is added to the mutating method names.  KeyBlock has no derived mutators: everything on
   its wrap / derive / MAC path must stay pure (those methods are reached through dispatch tables). *)
Definition container_class (n : string) : bool :=
  String.prefix "tr31.Blocks." n || String.prefix "tr31.Header." n.
Definition derived (fs : list fn_summary) : list fn_summary :=
  filter (fun f => fn_private f && writes_self f && container_class (fn_name f) &&
                   negb (str_in (fn_name f) mutators)) fs.
Definition all_mutators (fs : list fn_summary) : list string := mutators ++ map fn_name (derived fs).
Definition all_mutating_methods (fs : list fn_summary) : list string :=
  mutating_methods ++ map fn_method (derived fs).

Definition effect_ok (muts meths : list string) (fname : string) (e : effect) : bool :=
  let mut := str_in fname muts in
  match e with
  | EWrite OLocal | EWrite OFresh => true
  | EWrite OSelf => mut
  | EWrite (OParam _) | EWrite (OModule _) | EWrite (OUnknown _) => false
  | ECallMethod OFresh _ | ECallMethod OLocal _ => true
  | ECallMethod OSelf m => mut || negb (str_in m meths)
  | ECallMethod (OParam _) m => negb (str_in m meths)
  | ECallMethod (OModule _) m => negb (str_in m meths)
  | ECallMethod (OUnknown _) _ => false
  | ECallPsec _ | ECallPure _ => true
  | ECallEntropy _ => str_in fname entropy_users
  | ECallUnknown _ => false
  | EDeclGlobal _ => false
  end.

Definition fn_ok (muts meths : list string) (f : fn_summary) : bool :=
  forallb (effect_ok muts meths (fn_name f)) (fn_effects f).
Definition policy_ok (fs : list fn_summary) : bool :=
  forallb (fn_ok (all_mutators fs) (all_mutating_methods fs)) fs.

(* every function the deterministic public API is made of must be summarised *)
Definition required : list string :=
  [ "tools.xor"; "tools.odd_parity"; "des.apply_key_variant"; "des.adjust_key_parity"; "des.generate_kcv";
    "des.encrypt_tdes_cbc"; "des.encrypt_tdes_ecb"; "des.decrypt_tdes_cbc"; "des.decrypt_tdes_ecb";
    "aes.encrypt_aes_cbc"; "aes.encrypt_aes_ecb"; "aes.decrypt_aes_cbc"; "aes.decrypt_aes_ecb";
    "mac.generate_cbc_mac"; "mac.generate_retail_mac"; "mac.pad_iso_1"; "mac.pad_iso_2"; "mac.pad_iso_3";
    "cvv.generate_cvv"; "pin.generate_ibm3624_pin"; "pin.generate_ibm3624_offset"; "pin.generate_visa_pvv";
    "pinblock.encode_pinblock_iso_0"; "pinblock.encode_pinblock_iso_2"; "pinblock.encode_pan_field_iso_4";
    "pinblock.decode_pinblock_iso_0"; "pinblock.decode_pinblock_iso_2"; "pinblock.decode_pinblock_iso_3";
    "pinblock.decode_pin_field_iso_4"; "pinblock.decipher_pinblock_iso_4";
    "tr31.unwrap"; "tr31.wrap"; "tr31.KeyBlock.wrap"; "tr31.Header.dump"; "tr31.Header.__str__"; "tr31.Blocks.dump" ].

Definition covers (fs : list fn_summary) : bool :=
  forallb (fun r => existsb (fun f => String.eqb r (fn_name f)) fs) required.

Definition tree_ok (fs : list fn_summary) : bool := policy_ok fs && covers fs.

(* what the policy gives: a function that is neither a declared nor a derived mutator has no write to self, to a
   parameter or to module/class state, and calls no mutating method on them *)
Lemma policy_non_mutator fs f e :
  policy_ok fs = true -> In f fs -> In e (fn_effects f) -> str_in (fn_name f) (all_mutators fs) = false ->
  match e with
  | EWrite OSelf | EWrite (OParam _) | EWrite (OModule _) | EWrite (OUnknown _) => False
  | ECallMethod OSelf m | ECallMethod (OParam _) m | ECallMethod (OModule _) m =>
      str_in m (all_mutating_methods fs) = false
  | ECallMethod (OUnknown _) _ | ECallUnknown _ | EDeclGlobal _ => False
  | _ => True
  end.
Proof.
  intros P Hf He Hm. unfold policy_ok in P. rewrite forallb_forall in P.
  specialize (P f Hf). unfold fn_ok in P. rewrite forallb_forall in P. specialize (P e He).
  unfold effect_ok in P. rewrite Hm in P.
  destruct e as [o|o m| | | | |]; try exact I; try discriminate.
  - destruct o; try exact I; discriminate.
  - destruct o; try exact I; try discriminate;
      cbn [orb] in P; apply negb_true_iff in P; exact P.
Qed.

