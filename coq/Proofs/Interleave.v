(* A generic non-interference theorem for interleaved calls.
   Machine: a shared store (module/class state and the callers' argument
   objects) and one sequential process per call.  Each atomic step of a process
   reads the whole shared store and may write it.  If no process ever writes,
   then under EVERY schedule the shared store is unchanged and every process is
   exactly where it would be had it run alone for as many steps as it was
   scheduled - so it returns what it returns alone, whatever ran before it or
   runs concurrently. *)
From Coq Require Import List Arith Lia.
Import ListNotations.

Section Machine.
  Variable store : Type.
  Variable pstate : Type.
  Variable result : Type.

  Inductive step_out :=
  | Continue (s : pstate) (w : option (store -> store))
  | Done (r : result).

  Record proc := { p_init : pstate; p_step : pstate -> store -> step_out }.

  Inductive tstate := Running (s : pstate) | Finished (r : result).

  Fixpoint update {A} (i : nat) (x : A) (l : list A) : list A :=
    match l, i with
    | [], _ => []
    | _ :: t, O => x :: t
    | h :: t, S j => h :: update j x t
    end.

  (* one atomic step of thread i *)
  Definition exec1 (procs : list proc) (m : store * list tstate) (i : nat) : store * list tstate :=
    match nth_error procs i, nth_error (snd m) i with
    | Some p, Some (Running s) =>
        match p_step p s (fst m) with
        | Continue s' None => (fst m, update i (Running s') (snd m))
        | Continue s' (Some w) => (w (fst m), update i (Running s') (snd m))
        | Done r => (fst m, update i (Finished r) (snd m))
        end
    | _, _ => m
    end.

  Definition run_sched (procs : list proc) (sched : list nat) (m : store * list tstate) :=
    fold_left (exec1 procs) sched m.

  Definition initial (procs : list proc) : list tstate := map (fun p => Running (p_init p)) procs.

  (* a call that never writes the shared store *)
  Definition write_free (p : proc) : Prop :=
    forall s st s' w, p_step p s st = Continue s' w -> w = None.

  (* the same process running alone against a store that nobody changes *)
  Definition solo1 (p : proc) (st : store) (t : tstate) : tstate :=
    match t with
    | Running s => match p_step p s st with
                   | Continue s' _ => Running s'
                   | Done r => Finished r
                   end
    | Finished r => Finished r
    end.
  Fixpoint solo (p : proc) (st : store) (n : nat) (t : tstate) : tstate :=
    match n with O => t | S k => solo p st k (solo1 p st t) end.

  Lemma solo_snoc p st n t : solo p st (S n) t = solo1 p st (solo p st n t).
  Proof. revert t. induction n as [|n IH]; intros t; [reflexivity|]. cbn [solo] in *. rewrite IH. reflexivity. Qed.

  Lemma nth_error_update_same {A} i (x : A) l : i < length l -> nth_error (update i x l) i = Some x.
  Proof. revert i. induction l as [|h t IH]; intros [|i] H; simpl in *; try lia; auto. apply IH. lia. Qed.
  Lemma nth_error_update_other {A} i j (x : A) l : i <> j -> nth_error (update i x l) j = nth_error l j.
  Proof. revert i j. induction l as [|h t IH]; intros [|i] [|j] H; simpl; auto; try lia. Qed.
  Lemma update_length {A} i (x : A) l : length (update i x l) = length l.
  Proof. revert i. induction l as [|h t IH]; intros [|i]; simpl; auto. Qed.

  Fixpoint count (i : nat) (l : list nat) : nat :=
    match l with [] => O | j :: t => (if Nat.eqb i j then 1 else 0) + count i t end.
  Lemma count_app i a b : count i (a ++ b) = count i a + count i b.
  Proof. induction a; simpl; lia. Qed.

  Definition inv (procs : list proc) (st0 : store) (done : list nat) (m : store * list tstate) : Prop :=
    fst m = st0 /\ length (snd m) = length procs /\
    forall i p, nth_error procs i = Some p ->
      nth_error (snd m) i = Some (solo p st0 (count i done) (Running (p_init p))).

  Lemma inv_init procs st0 : inv procs st0 [] (st0, initial procs).
  Proof.
    unfold inv, initial. cbn [fst snd count solo]. repeat split.
    - apply map_length.
    - intros i p H. rewrite nth_error_map, H. reflexivity.
  Qed.

  Lemma inv_step procs st0 done m i : Forall write_free procs ->
    inv procs st0 done m -> inv procs st0 (done ++ [i]) (exec1 procs m i).
  Proof.
    intros WF (Hst & Hlen & Hth). unfold exec1.
    destruct (nth_error procs i) as [p|] eqn:Hp.
    2:{ repeat split; auto. intros j q Hq. rewrite count_app. cbn [count].
        destruct (Nat.eqb_spec j i) as [->|]; [congruence|]. rewrite Nat.add_0_r. auto. }
    pose proof (Hth i p Hp) as Hi. rewrite Hi.
    assert (Hwf : write_free p) by (rewrite Forall_forall in WF; apply WF; eapply nth_error_In; eauto).
    assert (Hil : i < length (snd m)) by (rewrite Hlen; apply nth_error_Some; congruence).
    set (cur := solo p st0 (count i done) (Running (p_init p))) in *.
    assert (Hnext : forall new,
      new = solo1 p st0 cur ->
      forall st', st' = st0 ->
      inv procs st0 (done ++ [i]) (st', update i new (snd m))).
    { intros new Hnew st' ->. repeat split; cbn [fst snd].
      - rewrite update_length. assumption.
      - intros j q Hq. rewrite count_app. cbn [count].
        destruct (Nat.eqb_spec j i) as [->|Hne].
        + rewrite nth_error_update_same by assumption.
          assert (q = p) by congruence. subst q.
          replace (count i done + (1 + 0)) with (S (count i done)) by lia.
          rewrite solo_snoc. fold cur. congruence.
        + rewrite nth_error_update_other by congruence. rewrite Nat.add_0_r. auto. }
    destruct cur as [s|r] eqn:Hcur.
    - cbn [solo1] in Hnext. rewrite Hst.
      destruct (p_step p s st0) as [s' w|r] eqn:Hs.
      + pose proof (Hwf _ _ _ _ Hs) as ->. apply Hnext; reflexivity.
      + apply Hnext; reflexivity.
    - (* already finished: the machine does not move; solo does not move either *)
      repeat split; auto. intros j q Hq. rewrite count_app. cbn [count].
      destruct (Nat.eqb_spec j i) as [->|Hne].
      + assert (q = p) by congruence. subst q.
        replace (count i done + (1 + 0)) with (S (count i done)) by lia.
        rewrite solo_snoc. fold cur. rewrite Hcur. cbn [solo1]. exact Hi.
      + rewrite Nat.add_0_r. auto.
  Qed.

  Theorem interleaving_pure procs sched st0 : Forall write_free procs ->
    inv procs st0 sched (run_sched procs sched (st0, initial procs)).
  Proof.
    intros WF. unfold run_sched.
    assert (G : forall sched done m, inv procs st0 done m ->
                inv procs st0 (done ++ sched) (fold_left (exec1 procs) sched m)).
    { clear sched. induction sched as [|i sched IH]; intros done m H; cbn [fold_left].
      - rewrite app_nil_r. assumption.
      - replace (done ++ i :: sched) with ((done ++ [i]) ++ sched) by (rewrite <- app_assoc; reflexivity).
        apply IH. apply inv_step; assumption. }
    apply (G sched [] _ (inv_init procs st0)).
  Qed.

  (* the statement in words *)
  Corollary pure_calls_do_not_interfere procs sched st0 : Forall write_free procs ->
    let m := run_sched procs sched (st0, initial procs) in
    fst m = st0 /\
    forall i p, nth_error procs i = Some p ->
      nth_error (snd m) i = Some (solo p st0 (count i sched) (Running (p_init p))).
  Proof. intros WF. destruct (interleaving_pure procs sched st0 WF) as (A & _ & C). split; assumption. Qed.
End Machine.
