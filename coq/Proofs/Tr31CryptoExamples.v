(* The premises of the round-trip lemmas of Proofs/Tr31Crypto.v are satisfiable:
   the toy ciphers are a lawful pair, and each version wraps and unwraps a
   3-byte key under a concrete ASCII header text (evaluated inside Coq). *)
From Coq Require Import Lia.
From Psec Require Import Lib.Base Cipher.Cipher Cipher.Toy Model.Tools Model.Mac Model.Tr31.
From Psec Require Import Proofs.TdesLemmas Proofs.Tr31Defs Proofs.Tr31CryptoBase Proofs.Tr31Crypto.
Open Scope N_scope.

Theorem toy_ciphers_ok : ciphers_ok toy_tdes toy_aes.
Proof.
  constructor.
  - apply tdes_ok. apply toy_des_ok.
  - apply toy_aes_ok.
  - reflexivity.
  - reflexivity.
  - intros k. reflexivity.
  - intros k. reflexivity.
Qed.

Definition kbpk8 : bytes := map N.of_nat (seq 1 8).
Definition kbpk16 : bytes := map N.of_nat (seq 1 16).
Definition kbpk24 : bytes := map N.of_nat (seq 1 24).
Definition kbpk32 : bytes := map N.of_nat (seq 1 32).
(* "B0048P0TE00N0000", "C0040P0TE00N0000", "D0080P0TE00N0000" *)
Definition hs_b : str := [66;48;48;52;56;80;48;84;69;48;48;78;48;48;48;48].
Definition hs_c : str := [67;48;48;52;48;80;48;84;69;48;48;78;48;48;48;48].
Definition hs_d : str := [68;48;48;56;48;80;48;84;69;48;48;78;48;48;48;48].
Definition key_ex : bytes := [1; 2; 3].
Definition tape3 : bytes := [7; 8; 9].
Definition tape11 : bytes := [7; 8; 9; 10; 11; 12; 13; 14; 15; 16; 17].

Definition ek_b : bytes := [107; 0; 22; 21; 103; 118; 0; 8].
Definition mac_b : bytes := [0; 16; 127; 109; 30; 25; 0; 106].

Example b_example :
  (length kbpk16 = 16%nat \/ length kbpk16 = 24%nat) /\
  bytes_ok kbpk16 = true /\ bytes_ok key_ex = true /\ bytes_ok tape3 = true /\
  ascii_str hs_b /\ (16 <= length hs_b)%nat /\ lenN key_ex * 8 < 65536 /\
  b_wrap toy_tdes toy_aes kbpk16 hs_b key_ex 0 tape3 = Ok (hs_b ++ hex_upper ek_b ++ hex_upper mac_b) /\
  b_unwrap toy_tdes toy_aes kbpk16 hs_b ek_b mac_b = Ok key_ex /\
  b_unwrap_clear toy_tdes toy_aes kbpk16 hs_b ek_b mac_b = Ok ([0; 24] ++ key_ex ++ tape3).
Proof.
  split; [left; reflexivity|].
  repeat split; vm_compute; reflexivity.
Qed.

(* 3-key KBPK and a masked key length (extra_pad = 8) *)
Definition ek_b24 : bytes := [3; 19; 116; 99; 18; 23; 8; 123; 98; 16; 16; 20; 102; 112; 16; 1].
Definition mac_b24 : bytes := [115; 24; 30; 24; 104; 123; 19; 2].

Example b_example_masked :
  (length kbpk24 = 16%nat \/ length kbpk24 = 24%nat) /\
  b_wrap toy_tdes toy_aes kbpk24 hs_b key_ex 8 tape11 = Ok (hs_b ++ hex_upper ek_b24 ++ hex_upper mac_b24) /\
  b_unwrap toy_tdes toy_aes kbpk24 hs_b ek_b24 mac_b24 = Ok key_ex.
Proof.
  split; [right; reflexivity|]. split; vm_compute; reflexivity.
Qed.

Definition ek_c : bytes := [85; 48; 95; 59; 62; 57; 32; 75].
Definition mac_c : bytes := [82; 40; 81; 72].

Example c_example :
  (length kbpk8 = 8%nat \/ length kbpk8 = 16%nat \/ length kbpk8 = 24%nat) /\
  bytes_ok kbpk8 = true /\ bytes_ok key_ex = true /\ bytes_ok tape3 = true /\
  ascii_str hs_c /\ (16 <= length hs_c)%nat /\ lenN key_ex * 8 < 65536 /\
  c_wrap toy_tdes toy_aes kbpk8 hs_c key_ex 0 tape3 = Ok (hs_c ++ hex_upper ek_c ++ hex_upper mac_c) /\
  c_unwrap toy_tdes toy_aes kbpk8 hs_c ek_c mac_c = Ok key_ex /\
  c_unwrap_clear toy_tdes toy_aes kbpk8 hs_c ek_c mac_c = Ok ([0; 24] ++ key_ex ++ tape3).
Proof.
  split; [left; reflexivity|].
  repeat split; vm_compute; reflexivity.
Qed.

Definition ek_d : bytes := [65; 88; 94; 92; 32; 91; 83; 38; 55; 83; 59; 94; 84; 94; 88; 53].
Definition mac_d : bytes := [21; 96; 127; 118; 125; 28; 123; 30; 12; 120; 119; 13; 114; 113; 104; 112].

Example d_example :
  (length kbpk32 = 16%nat \/ length kbpk32 = 24%nat \/ length kbpk32 = 32%nat) /\
  bytes_ok kbpk32 = true /\ bytes_ok key_ex = true /\ bytes_ok tape11 = true /\
  ascii_str hs_d /\ (16 <= length hs_d)%nat /\ lenN key_ex * 8 < 65536 /\
  d_wrap toy_tdes toy_aes kbpk32 hs_d key_ex 0 tape11 = Ok (hs_d ++ hex_upper ek_d ++ hex_upper mac_d) /\
  d_unwrap toy_tdes toy_aes kbpk32 hs_d ek_d mac_d = Ok key_ex /\
  d_unwrap_clear toy_tdes toy_aes kbpk32 hs_d ek_d mac_d = Ok ([0; 24] ++ key_ex ++ tape11).
Proof.
  split; [right; right; reflexivity|].
  repeat split; vm_compute; reflexivity.
Qed.

(* the dispatch-table statement: its premises hold for version "C" with the toy pair *)
Example dispatch_example :
  wrap_dispatch toy_tdes toy_aes [67] = Ok (c_wrap toy_tdes toy_aes) /\
  unwrap_dispatch toy_tdes toy_aes [67] = Ok (c_unwrap toy_tdes toy_aes) /\
  unwrap_clear_dispatch toy_tdes toy_aes [67] = Ok (c_unwrap_clear toy_tdes toy_aes) /\
  key_block_mac_len [67] = Ok 4%nat /\ algo_block_size [67] = Ok 8%nat /\
  kbpk_size_ok [67] (length kbpk8).
Proof. repeat split. left. reflexivity. Qed.

(* the general lemma, instantiated: what it yields agrees with the evaluation *)
Example b_roundtrip_toy : forall s,
  b_wrap toy_tdes toy_aes kbpk16 hs_b key_ex 0 tape3 = Ok s ->
  exists ek mac, s = hs_b ++ hex_upper ek ++ hex_upper mac /\
    b_unwrap toy_tdes toy_aes kbpk16 hs_b ek mac = Ok key_ex.
Proof.
  intros s W.
  destruct (b_roundtrip toy_tdes toy_aes toy_ciphers_ok kbpk16 hs_b key_ex 0%nat tape3 s)
    as (ek & mac & E & _ & _ & _ & _ & _ & _ & U & _);
    try (vm_compute; reflexivity); [left; reflexivity|exact W|].
  exists ek, mac. split; assumption.
Qed.

(* the hex round trip on a concrete value, including both letter digits and zero *)
Example hex_example : bytes_fromhex (hex_upper [0; 10; 171; 255]) = Ok [0; 10; 171; 255].
Proof. reflexivity. Qed.

Print Assumptions toy_ciphers_ok.
