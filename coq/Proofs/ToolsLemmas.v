(* psec.tools.odd_parity / xor and the key utilities of psec.des
   (adjust_key_parity, apply_key_variant): exactness lemmas for property C20. *)
From Coq Require Import Lia ZifyBool ZifyNat ZifyN.
From Psec Require Import Lib.Base Cipher.Cipher Model.Tools Proofs.XorLemmas.
Ltac Zify.zify_post_hook ::= Z.to_euclidean_division_equations.
Open Scope N_scope.

(* NB: [xorb] is shadowed by Cipher.xorb (= py_xor); the boolean one is [Datatypes.xorb]. *)

(* parity (xor) of the n low bits of v; for v < 2^n it is the bit-count parity *)
Fixpoint popcount_odd (n : nat) (v : N) : bool :=
  match n with
  | O => false
  | S n' => Datatypes.xorb (N.testbit v (N.of_nat n')) (popcount_odd n' v)
  end.

(* ------------------------------------------------------------------ *)
(* finite sweeps                                                        *)
Lemma in_range_N k n : n < N.of_nat k -> In n (map N.of_nat (seq 0 k)).
Proof.
  intros H. apply in_map_iff. exists (N.to_nat n). split; [apply N2Nat.id|].
  apply in_seq. lia.
Qed.

(* ------------------------------------------------------------------ *)
(* odd_parity                                                           *)
Lemma popcount_odd_lxor n a b :
  popcount_odd n (N.lxor a b) = Datatypes.xorb (popcount_odd n a) (popcount_odd n b).
Proof.
  induction n as [|n IH]; [reflexivity|]. cbn [popcount_odd]. rewrite IH, N.lxor_spec.
  destruct (N.testbit a (N.of_nat n)), (N.testbit b (N.of_nat n)),
    (popcount_odd n a), (popcount_odd n b); reflexivity.
Qed.

Lemma popcount_odd_add n m v :
  popcount_odd (n + m) v =
  Datatypes.xorb (popcount_odd n v) (popcount_odd m (N.shiftr v (N.of_nat n))).
Proof.
  induction m as [|m IH].
  - rewrite Nat.add_0_r. cbn [popcount_odd]. rewrite Bool.xorb_false_r. reflexivity.
  - rewrite Nat.add_succ_r. cbn [popcount_odd]. rewrite IH, N.shiftr_spec'.
    rewrite Nat2N.inj_add, (N.add_comm (N.of_nat n)).
    destruct (N.testbit v (N.of_nat m + N.of_nat n)), (popcount_odd n v),
      (popcount_odd m (N.shiftr v (N.of_nat n))); reflexivity.
Qed.

(* one xor-fold halves the width *)
Lemma popcount_odd_fold n v :
  popcount_odd (n + n) v = popcount_odd n (N.lxor v (N.shiftr v (N.of_nat n))).
Proof. rewrite popcount_odd_add, popcount_odd_lxor. reflexivity. Qed.

Lemma popcount_odd4_land15 x : popcount_odd 4 (N.land x 15) = popcount_odd 4 x.
Proof.
  cbn [popcount_odd]. rewrite !N.land_spec.
  change (N.testbit 15 (N.of_nat 3)) with true. change (N.testbit 15 (N.of_nat 2)) with true.
  change (N.testbit 15 (N.of_nat 1)) with true. change (N.testbit 15 (N.of_nat 0)) with true.
  rewrite !Bool.andb_true_r. reflexivity.
Qed.

Lemma land15_lt x : N.land x 15 < 16.
Proof. change 15 with (N.ones 4). rewrite N.land_ones. apply N.mod_lt. discriminate. Qed.

(* the 16-entry table 0x6996 *)
Lemma nibble_table :
  forallb (fun n => N.land (N.shiftr 27030 n) 1 =? (if popcount_odd 4 n then 1 else 0))
          (map N.of_nat (seq 0 16)) = true.
Proof. vm_compute. reflexivity. Qed.

Lemma nibble_parity n : n < 16 ->
  N.land (N.shiftr 27030 n) 1 = if popcount_odd 4 n then 1 else 0.
Proof.
  intros H. pose proof nibble_table as T. rewrite forallb_forall in T.
  apply N.eqb_eq. apply T. apply (in_range_N 16). exact H.
Qed.

(* holds for every non-negative v: bits from 32 upwards are ignored by the code *)
Lemma odd_parity_low32 v : odd_parity v = if popcount_odd 32 v then 1 else 0.
Proof.
  unfold odd_parity.
  set (v1 := N.lxor v (N.shiftr v 16)).
  set (v2 := N.lxor v1 (N.shiftr v1 8)).
  set (v3 := N.lxor v2 (N.shiftr v2 4)).
  assert (E : popcount_odd 32 v = popcount_odd 4 (N.land v3 15)).
  { rewrite popcount_odd4_land15. unfold v3, v2, v1.
    change 32%nat with (16 + 16)%nat. rewrite popcount_odd_fold. change (N.of_nat 16) with 16.
    change 16%nat with (8 + 8)%nat. rewrite popcount_odd_fold. change (N.of_nat 8) with 8.
    change 8%nat with (4 + 4)%nat. rewrite popcount_odd_fold. change (N.of_nat 4) with 4.
    reflexivity. }
  rewrite E. apply nibble_parity. apply land15_lt.
Qed.

Theorem odd_parity_spec v : v < 2 ^ 32 ->
  odd_parity v = if popcount_odd 32 v then 1 else 0.
Proof. intros _. apply odd_parity_low32. Qed.

(* for v < 2^n the bits above n are zero, so popcount_odd over any wider window agrees *)
Lemma popcount_odd_wider n m v : v < 2 ^ N.of_nat n ->
  popcount_odd (n + m) v = popcount_odd n v.
Proof.
  intros H. rewrite popcount_odd_add. rewrite N.shiftr_div_pow2, N.div_small by assumption.
  assert (Z : forall k, popcount_odd k 0 = false).
  { induction k; cbn [popcount_odd]; [reflexivity|]. rewrite N.bits_0, IHk. reflexivity. }
  rewrite Z. apply Bool.xorb_false_r.
Qed.

(* a byte's parity as seen by odd_parity is the parity of its 8 bits *)
Lemma odd_parity_byte b : b < 256 -> odd_parity b = if popcount_odd 8 b then 1 else 0.
Proof.
  intros H. rewrite odd_parity_low32. change 32%nat with (8 + 24)%nat.
  rewrite popcount_odd_wider by exact H. reflexivity.
Qed.

(* ------------------------------------------------------------------ *)
(* adjust_key_parity                                                    *)
Definition adj1 (b : N) : N := if odd_parity b =? 0 then N.lxor b 1 else b.

Lemma adjust_key_parity_map key : adjust_key_parity key = map adj1 key.
Proof. reflexivity. Qed.

Definition adj1_check (b : N) : bool :=
  let o := adj1 b in
  popcount_odd 8 o && ((o =? b) || (o =? N.lxor b 1)) && (o / 2 =? b / 2) && (o <? 256)
  && (adj1 o =? o).

Lemma adj1_table : forallb adj1_check (map N.of_nat (seq 0 256)) = true.
Proof. vm_compute. reflexivity. Qed.

Lemma adj1_spec b : b < 256 ->
  popcount_odd 8 (adj1 b) = true /\ (adj1 b = b \/ adj1 b = N.lxor b 1) /\
  adj1 b / 2 = b / 2 /\ adj1 b < 256 /\ adj1 (adj1 b) = adj1 b.
Proof.
  intros H. pose proof adj1_table as T. rewrite forallb_forall in T.
  specialize (T b (in_range_N 256 b H)). unfold adj1_check in T. cbv zeta in T.
  rewrite !andb_true_iff, orb_true_iff, !N.eqb_eq, N.ltb_lt in T.
  destruct T as ((((T1 & T2) & T3) & T4) & T5). auto.
Qed.

Theorem parity_adjust key : bytes_ok key = true ->
  length (adjust_key_parity key) = length key /\
  bytes_ok (adjust_key_parity key) = true /\
  Forall2 (fun i o => popcount_odd 8 o = true /\ (o = i \/ o = N.lxor i 1) /\ o / 2 = i / 2)
          key (adjust_key_parity key).
Proof.
  rewrite adjust_key_parity_map. induction key as [|b key IH]; intro H.
  - repeat split. constructor.
  - apply bytes_ok_cons in H as [Hb Hk]. destruct (IH Hk) as (L & B & F).
    destruct (adj1_spec b Hb) as (P1 & P2 & P3 & P4 & _).
    cbn [map length]. repeat split.
    + f_equal. exact L.
    + apply bytes_ok_cons. auto.
    + constructor; auto.
Qed.

Theorem parity_idempotent key : bytes_ok key = true ->
  adjust_key_parity (adjust_key_parity key) = adjust_key_parity key.
Proof.
  change (bytes_ok key = true -> map adj1 (map adj1 key) = map adj1 key).
  induction key as [|b key IH]; intro H; [reflexivity|].
  apply bytes_ok_cons in H as [Hb Hk]. cbn [map]. f_equal; [|auto].
  apply adj1_spec. exact Hb.
Qed.

(* ------------------------------------------------------------------ *)
(* apply_key_variant                                                    *)
Lemma mem_nat_key_len n : mem_nat n [8; 16; 24]%nat = true <-> (n = 8 \/ n = 16 \/ n = 24)%nat.
Proof. unfold mem_nat. cbn [existsb]. rewrite !orb_true_iff, !Nat.eqb_eq. lia. Qed.

Lemma repeat_list_length {A} n (l : list A) : length (repeat_list n l) = (n * length l)%nat.
Proof. induction n; cbn [repeat_list]; [reflexivity|]. rewrite app_length, IHn. lia. Qed.

Lemma repeat_list_bytes_ok n l : bytes_ok l = true -> bytes_ok (repeat_list n l) = true.
Proof.
  intros H. induction n; cbn [repeat_list]; [reflexivity|]. apply bytes_ok_app. auto.
Qed.

Lemma repeat_list_nth {A} n (l : list A) d i : (i < n * length l)%nat ->
  nth i (repeat_list n l) d = nth (i mod length l) l d.
Proof.
  revert i. induction n as [|n IH]; intros i H; [cbn in H; lia|].
  assert (L0 : length l <> 0%nat) by (intro E; rewrite E in H; lia).
  cbn [repeat_list]. destruct (Nat.lt_ge_cases i (length l)) as [Hi|Hi].
  - rewrite app_nth1 by exact Hi. rewrite Nat.mod_small by exact Hi. reflexivity.
  - rewrite app_nth2 by exact Hi. rewrite IH by (cbn in H; lia). f_equal.
    replace i with ((i - length l) + 1 * length l)%nat at 2 by lia.
    rewrite Nat.mod_add by exact L0. reflexivity.
Qed.

Definition variant_mask (len : nat) (v : Z) : list N :=
  repeat_list (len / 8) ([8 * Z.to_N v] ++ repeat 0 7).

Lemma variant_mask_length len v : length (variant_mask len v) = (len / 8 * 8)%nat.
Proof. unfold variant_mask. rewrite repeat_list_length. reflexivity. Qed.

Lemma variant_mask_bytes_ok len v : (0 <= v <= 31)%Z -> bytes_ok (variant_mask len v) = true.
Proof.
  intros H. apply repeat_list_bytes_ok. apply bytes_ok_app. split.
  - apply bytes_ok_cons. split; [lia|reflexivity].
  - apply bytes_ok_repeat. lia.
Qed.

Lemma variant_mask_nth len v i : (i < len / 8 * 8)%nat ->
  nth i (variant_mask len v) 0 = if (i mod 8 =? 0)%nat then 8 * Z.to_N v else 0.
Proof.
  intros H. unfold variant_mask. rewrite repeat_list_nth by exact H.
  change (length ([8 * Z.to_N v] ++ repeat 0 7)) with 8%nat.
  destruct (Nat.eqb_spec (i mod 8) 0) as [E|E].
  - rewrite E. reflexivity.
  - destruct (i mod 8)%nat as [|m]; [congruence|].
    change (nth (S m) ([8 * Z.to_N v] ++ repeat 0 7) 0) with (nth m (repeat 0 7) 0).
    apply nth_repeat.
Qed.

Lemma variant_shape key v : (length key = 8 \/ length key = 16 \/ length key = 24)%nat ->
  (0 <= v <= 31)%Z ->
  apply_key_variant key v = Ok (py_xor key (variant_mask (length key) v)).
Proof.
  intros HL Hv. unfold apply_key_variant.
  apply mem_nat_key_len in HL. rewrite HL. cbn [negb].
  destruct (Z.ltb_spec v 0); [lia|]. destruct (Z.ltb_spec 31 v); [lia|]. cbn [orb].
  unfold to_bytes_be. change (256 ^ N.of_nat 1) with 256.
  destruct (N.ltb_spec (8 * Z.to_N v) 256); [|lia].
  cbn [bind]. unfold be_bytes. cbn [le_bytes rev app].
  rewrite N.mod_small by assumption. reflexivity.
Qed.

Theorem variant_exact key v : bytes_ok key = true ->
  (length key = 8 \/ length key = 16 \/ length key = 24)%nat -> (0 <= v <= 31)%Z ->
  exists out, apply_key_variant key v = Ok out /\ length out = length key /\
    bytes_ok out = true /\
    forall i, (i < length key)%nat ->
      nth i out 0 = if (i mod 8 =? 0)%nat then N.lxor (nth i key 0) (8 * Z.to_N v)
                    else nth i key 0.
Proof.
  intros Hk HL Hv. exists (py_xor key (variant_mask (length key) v)).
  pose proof (variant_mask_bytes_ok (length key) v Hv) as Hm.
  assert (LM : (length key / 8 * 8 = length key)%nat) by lia.
  split; [apply variant_shape; assumption|]. split; [apply py_xor_length|].
  split; [apply py_xor_bytes_ok; assumption|].
  intros i Hi. rewrite py_xor_is_bytewise by assumption.
  rewrite xor_pos_nth by (rewrite ?variant_mask_length; lia).
  rewrite variant_mask_nth by lia.
  destruct (i mod 8 =? 0)%nat; [reflexivity|apply N.lxor_0_r].
Qed.

Theorem variant_involutive key v out : bytes_ok key = true ->
  (length key = 8 \/ length key = 16 \/ length key = 24)%nat -> (0 <= v <= 31)%Z ->
  apply_key_variant key v = Ok out -> apply_key_variant out v = Ok key.
Proof.
  intros Hk HL Hv E. rewrite variant_shape in E by assumption. injection E as <-.
  rewrite variant_shape by (rewrite ?py_xor_length; assumption).
  rewrite py_xor_length. f_equal. apply py_xor_involutive.
  - assumption.
  - apply variant_mask_bytes_ok. assumption.
  - rewrite variant_mask_length. lia.
Qed.

Theorem variant_rejects key v :
  (~ (length key = 8 \/ length key = 16 \/ length key = 24)%nat \/ (v < 0)%Z \/ (31 < v)%Z) ->
  apply_key_variant key v = Err ValueError.
Proof.
  intros H. unfold apply_key_variant.
  destruct (mem_nat (length key) [8; 16; 24]%nat) eqn:M; cbn [negb]; [|reflexivity].
  apply mem_nat_key_len in M.
  destruct (Z.ltb_spec v 0); [reflexivity|]. destruct (Z.ltb_spec 31 v); [reflexivity|].
  exfalso. destruct H as [H|H]; [tauto|lia].
Qed.

(* ------------------------------------------------------------------ *)
(* tools.xor                                                            *)
Theorem xor_exact data mask : bytes_ok data = true -> bytes_ok mask = true ->
  length (py_xor data mask) = length data /\
  forall i, (i < length data)%nat ->
    nth i (py_xor data mask) 0 =
    if (i <? length mask)%nat then N.lxor (nth i data 0) (nth i mask 0) else nth i data 0.
Proof.
  intros Hd Hm. split; [apply py_xor_length|]. intros i Hi.
  rewrite py_xor_is_bytewise by assumption.
  destruct (Nat.ltb_spec i (length mask)).
  - apply xor_pos_nth; assumption.
  - apply xor_pos_nth_beyond; assumption.
Qed.
