(* C12, the mapping API of Blocks: what every method (the three defined by
   Blocks and the MutableMapping mixins built on them) does to the dict, when
   it raises, and that every Blocks object reachable through the whole API holds
   only valid ids, printable data and distinct ids. *)
From Coq Require Import Lia ZifyBool ZifyNat ZifyN.
From Psec Require Import Lib.Base Cipher.Cipher Model.Tr31.
From Psec Require Import Proofs.TextLemmas Proofs.Tr31Defs Proofs.Tr31SafetyLoad Proofs.Tr31Safety Proofs.Tr31Loaded.
From Psec Require Import Model.BlocksApi.
Open Scope N_scope.

(* ------------------------------------------------------------------ *)
(* what Blocks.__setitem__ accepts                                      *)
Definition valid_pair (id v : str) : Prop :=
  length id = 2%nat /\ ascii_alphanumeric id = true /\ ascii_printable v = true.

Definition valid_pairb (id v : str) : bool :=
  (length id =? 2)%nat && ascii_alphanumeric id && ascii_printable v.

Definition valid_kv (kv : str * str) : Prop := valid_pair (fst kv) (snd kv).
Definition valid_kvb (kv : str * str) : bool := valid_pairb (fst kv) (snd kv).

Lemma valid_pairb_spec id v : valid_pairb id v = true <-> valid_pair id v.
Proof.
  unfold valid_pairb, valid_pair. rewrite !andb_true_iff, Nat.eqb_eq. tauto.
Qed.

Lemma valid_pairb_false id v : valid_pairb id v = false <-> ~ valid_pair id v.
Proof.
  rewrite <- valid_pairb_spec. destruct (valid_pairb id v); split; intros H;
    try reflexivity; try discriminate; try (intros D; discriminate D).
  exfalso. apply H. reflexivity.
Qed.

Lemma valid_pair_entry_wf id v : valid_pair id v <-> entry_wf (id, v).
Proof. unfold valid_pair, entry_wf. cbn [fst snd]. tauto. Qed.

Lemma blocks_setitem_eq id v d :
  blocks_setitem id v d = if valid_pairb id v then Ok (dict_set id v d) else Err HeaderError.
Proof.
  unfold blocks_setitem, valid_pairb.
  destruct (length id =? 2)%nat, (ascii_alphanumeric id), (ascii_printable v); reflexivity.
Qed.

Lemma api_setitem_eq id v d :
  api_setitem id v d =
  if valid_pairb id v then (dict_set id v d, AoNone) else (d, AoErr HeaderError).
Proof. unfold api_setitem. rewrite blocks_setitem_eq. destruct (valid_pairb id v); reflexivity. Qed.

(* ------------------------------------------------------------------ *)
(* the insertion-ordered dict                                           *)
Lemma dict_mem_in k d : dict_mem k d = true <-> In k (map fst d).
Proof.
  induction d as [|[k' v'] r IH]; cbn [dict_mem map fst In].
  - split; [discriminate | intros []].
  - rewrite orb_true_iff, IH, TextLemmas.list_eqb_eq. split; intros [H|H]; auto.
Qed.

Lemma dict_mem_false_in k d : dict_mem k d = false <-> ~ In k (map fst d).
Proof.
  rewrite <- dict_mem_in. destruct (dict_mem k d); split; intros H;
    try reflexivity; try discriminate; try (intros D; discriminate D).
  exfalso. apply H. reflexivity.
Qed.

Lemma dict_get_none_iff k d : dict_get k d = None <-> dict_mem k d = false.
Proof.
  induction d as [|[k' v'] r IH]; cbn [dict_get dict_mem].
  - split; reflexivity.
  - destruct (list_eqb k k'); cbn [orb]; [split; discriminate | exact IH].
Qed.

Lemma dict_get_some_mem k d v : dict_get k d = Some v -> dict_mem k d = true.
Proof.
  intros H. destruct (dict_mem k d) eqn:E; [reflexivity|].
  apply dict_get_none_iff in E. congruence.
Qed.

Lemma dict_mem_get k d : dict_mem k d = true -> exists v, dict_get k d = Some v.
Proof.
  intros H. destruct (dict_get k d) as [v|] eqn:E; [eauto|].
  apply dict_get_none_iff in E. congruence.
Qed.

Lemma dict_get_in k d v : dict_get k d = Some v -> In (k, v) d.
Proof.
  induction d as [|[k' v'] r IH]; cbn [dict_get In]; [discriminate|].
  destruct (list_eqb k k') eqn:E.
  - apply TextLemmas.list_eqb_eq in E. intros H. left. congruence.
  - intros H. right. apply IH, H.
Qed.

(* with distinct ids, the stored value is THE value paired with the id *)
Lemma dict_get_nodup k d v : NoDup (map fst d) -> In (k, v) d -> dict_get k d = Some v.
Proof.
  induction d as [|[k' v'] r IH]; cbn [dict_get In map fst]; [intros _ []|].
  intros Hnd. inversion Hnd as [|? ? Hfresh Hr]; subst. intros [H|H].
  - injection H as -> ->. rewrite list_eqb_same. reflexivity.
  - destruct (list_eqb k k') eqn:E.
    + apply TextLemmas.list_eqb_eq in E. subst k'. exfalso. apply Hfresh.
      apply (in_map fst) in H. exact H.
    + apply IH; assumption.
Qed.

Lemma blocks_getitem_eq k d :
  blocks_getitem k d = match dict_get k d with Some v => Ok v | None => Err (Crash CKey) end.
Proof.
  unfold blocks_getitem. destruct (dict_mem k d) eqn:E; [reflexivity|].
  apply dict_get_none_iff in E. rewrite E. reflexivity.
Qed.

Lemma dict_remove_head k v r : dict_remove k ((k, v) :: r) = r.
Proof. cbn [dict_remove]. rewrite list_eqb_same. reflexivity. Qed.

Lemma dict_remove_keys k d x : In x (map fst (dict_remove k d)) -> In x (map fst d).
Proof.
  induction d as [|[k' v'] r IH]; cbn [dict_remove]; [intros []|].
  destruct (list_eqb k k'); cbn [map fst In]; [intros H; right; exact H|].
  intros [H|H]; [left; exact H | right; apply IH, H].
Qed.

Lemma dict_remove_nodup k d : NoDup (map fst d) -> NoDup (map fst (dict_remove k d)).
Proof.
  induction d as [|[k' v'] r IH]; cbn [dict_remove map fst]; intros Hnd; [constructor|].
  inversion Hnd as [|? ? Hfresh Hr]; subst.
  destruct (list_eqb k k'); [exact Hr|]. cbn [map fst]. constructor; [|apply IH, Hr].
  intros Hin. apply Hfresh. eapply dict_remove_keys. exact Hin.
Qed.

Lemma dict_remove_Forall (P : str * str -> Prop) k d : Forall P d -> Forall P (dict_remove k d).
Proof.
  induction d as [|[k' v'] r IH]; intros Hd; cbn [dict_remove]; [constructor|].
  inversion Hd as [|? ? H1 H2]; subst. destruct (list_eqb k k'); [exact H2|].
  constructor; [exact H1 | apply IH, H2].
Qed.

Lemma dict_remove_absent k d : dict_mem k d = false -> dict_remove k d = d.
Proof.
  induction d as [|[k' v'] r IH]; cbn [dict_remove dict_mem]; [reflexivity|].
  destruct (list_eqb k k'); cbn [orb]; [discriminate|]. intros H. rewrite IH by exact H. reflexivity.
Qed.

(* an id that is present is overwritten in place *)
Lemma dict_set_split_existing k v d : dict_mem k d = true ->
  exists l1 old l2, d = l1 ++ (k, old) :: l2 /\ ~ In k (map fst l1) /\
                    dict_get k d = Some old /\ dict_set k v d = l1 ++ (k, v) :: l2.
Proof.
  induction d as [|[k' v'] r IH]; cbn [dict_mem dict_set dict_get]; [discriminate|].
  destruct (list_eqb k k') eqn:E; cbn [orb].
  - intros _. apply TextLemmas.list_eqb_eq in E. subst k'.
    exists [], v', r. cbn [app map In]. repeat split; try reflexivity. intros [].
  - intros H. destruct (IH H) as (l1 & old & l2 & -> & Hn & Hg & Hs).
    exists ((k', v') :: l1), old, l2. cbn [app map fst In]. rewrite Hs.
    repeat split; try reflexivity; [|exact Hg].
    intros [D|D]; [|exact (Hn D)]. subst k'. rewrite list_eqb_same in E. discriminate E.
Qed.

(* an id that is absent is appended *)
Lemma dict_set_new k v d : dict_mem k d = false -> dict_set k v d = d ++ [(k, v)].
Proof.
  induction d as [|[k' v'] r IH]; cbn [dict_mem dict_set app]; [reflexivity|].
  destruct (list_eqb k k'); cbn [orb]; [discriminate|]. intros H. rewrite IH by exact H. reflexivity.
Qed.

Lemma dict_remove_split k d : dict_mem k d = true ->
  exists l1 v l2, d = l1 ++ (k, v) :: l2 /\ ~ In k (map fst l1) /\
                  dict_get k d = Some v /\ dict_remove k d = l1 ++ l2.
Proof.
  induction d as [|[k' v'] r IH]; cbn [dict_mem dict_remove dict_get]; [discriminate|].
  destruct (list_eqb k k') eqn:E; cbn [orb].
  - intros _. apply TextLemmas.list_eqb_eq in E. subst k'.
    exists [], v', r. cbn [app map In]. repeat split; try reflexivity. intros [].
  - intros H. destruct (IH H) as (l1 & v & l2 & -> & Hn & Hg & Hs).
    exists ((k', v') :: l1), v, l2. cbn [app map fst In]. rewrite Hs.
    repeat split; try reflexivity; [|exact Hg].
    intros [D|D]; [|exact (Hn D)]. subst k'. rewrite list_eqb_same in E. discriminate E.
Qed.

Definition other_id (k : str) (kv : str * str) : bool := negb (list_eqb k (fst kv)).

Lemma filter_absent k d : ~ In k (map fst d) -> filter (other_id k) d = d.
Proof.
  induction d as [|[k' v'] r IH]; cbn [filter map fst In]; [reflexivity|]. intros H.
  unfold other_id at 1. cbn [fst]. rewrite (TextLemmas.list_eqb_neq k k') by (intros ->; apply H; left; reflexivity).
  cbn [negb]. rewrite IH; [reflexivity|]. intros D. apply H. right. exact D.
Qed.

(* with distinct ids, removing an id removes every entry with that id *)
Lemma dict_remove_filter k d : NoDup (map fst d) -> dict_remove k d = filter (other_id k) d.
Proof.
  induction d as [|[k' v'] r IH]; cbn [dict_remove filter map fst]; [reflexivity|]. intros Hnd.
  inversion Hnd as [|? ? Hfresh Hr]; subst. unfold other_id at 1. cbn [fst].
  destruct (list_eqb k k') eqn:E; cbn [negb].
  - apply TextLemmas.list_eqb_eq in E. subst k'. rewrite filter_absent by exact Hfresh. reflexivity.
  - rewrite IH by exact Hr. reflexivity.
Qed.

Lemma dict_remove_nodup_absent k d : NoDup (map fst d) -> dict_mem k (dict_remove k d) = false.
Proof.
  intros Hnd. rewrite dict_remove_filter by exact Hnd. apply dict_mem_false_in.
  intros H. apply in_map_iff in H as ([k' v'] & <- & H). apply filter_In in H as [_ H].
  unfold other_id in H. cbn [fst] in H. rewrite list_eqb_same in H. discriminate H.
Qed.

(* ------------------------------------------------------------------ *)
(* closed forms of the methods                                          *)
Lemma api_update_cons k v r d :
  api_update ((k, v) :: r) d =
  if valid_pairb k v then api_update r (dict_set k v d) else (d, AoErr HeaderError).
Proof. cbn [api_update]. rewrite api_setitem_eq. destruct (valid_pairb k v); reflexivity. Qed.

Lemma api_setdefault_eq id v d :
  api_setdefault id v d =
  match dict_get id d with
  | Some s => (d, AoStr s)
  | None => if valid_pairb id v then (dict_set id v d, AoStr v) else (d, AoErr HeaderError)
  end.
Proof.
  unfold api_setdefault. rewrite blocks_getitem_eq, api_setitem_eq.
  destruct (dict_get id d); [reflexivity|]. destruct (valid_pairb id v); reflexivity.
Qed.

Lemma api_delitem_eq id d :
  api_delitem id d = if dict_mem id d then (dict_remove id d, AoNone) else (d, AoErr (Crash CKey)).
Proof. unfold api_delitem, dict_del. destruct (dict_mem id d); reflexivity. Qed.

Lemma api_pop_eq id d :
  api_pop id d =
  match dict_get id d with
  | Some v => (dict_remove id d, AoStr v)
  | None => (d, AoErr (Crash CKey))
  end.
Proof.
  unfold api_pop. rewrite blocks_getitem_eq, api_delitem_eq.
  destruct (dict_get id d) as [v|] eqn:E; [|reflexivity].
  rewrite (dict_get_some_mem _ _ _ E). reflexivity.
Qed.

Lemma api_getitem_eq id d :
  api_step d (AGetItem id) =
  match dict_get id d with Some v => (d, AoStr v) | None => (d, AoErr (Crash CKey)) end.
Proof. cbn [api_step]. rewrite blocks_getitem_eq. destruct (dict_get id d); reflexivity. Qed.

Lemma api_popitem_nil : api_popitem [] = ([], AoErr (Crash CKey)).
Proof. reflexivity. Qed.

Lemma api_popitem_cons k v r : api_popitem ((k, v) :: r) = (r, AoPair k v).
Proof.
  unfold api_popitem. rewrite blocks_getitem_eq, api_delitem_eq.
  cbn [dict_get dict_mem]. rewrite list_eqb_same. cbn [orb]. rewrite dict_remove_head. reflexivity.
Qed.

(* the loop of clear(): [n] iterations drop the first [n] entries; the
   iteration that meets the empty dict ends the loop (KeyError, swallowed) *)
Lemma api_clear_loop_eq n : forall d, api_clear_loop n d = (skipn n d, AoNone).
Proof.
  induction n as [|n IH]; intros d; [reflexivity|].
  destruct d as [|[k v] r]; cbn [api_clear_loop skipn].
  - rewrite api_popitem_nil. reflexivity.
  - rewrite api_popitem_cons. apply IH.
Qed.

Lemma api_clear_eq d : api_step d AClear = ([], AoNone).
Proof. cbn [api_step]. rewrite api_clear_loop_eq, skipn_all. reflexivity. Qed.

(* ------------------------------------------------------------------ *)
(* (a) invariants of the dict through every method                      *)
(* which ids an op may insert *)
Definition op_keys (Q : str -> Prop) (op : api_op) : Prop :=
  match op with
  | ASetItem id _ | ASetDefault id _ => Q id
  | AUpdate kvs => Forall (fun kv => Q (fst kv)) kvs
  | _ => True
  end.

Section Invariant.
  Variable P : dict -> Prop.
  Variable Q : str -> Prop.
  Hypothesis Hset : forall k v d, valid_pair k v -> Q k -> P d -> P (dict_set k v d).
  Hypothesis Hrem : forall k d, P d -> P (dict_remove k d).

  Lemma api_setitem_inv id v d : Q id -> P d -> P (fst (api_setitem id v d)).
  Proof.
    intros Hq Hd. rewrite api_setitem_eq. destruct (valid_pairb id v) eqn:E; cbn [fst]; [|exact Hd].
    apply Hset; [apply valid_pairb_spec, E | exact Hq | exact Hd].
  Qed.

  Lemma api_update_inv kvs : forall d,
    Forall (fun kv => Q (fst kv)) kvs -> P d -> P (fst (api_update kvs d)).
  Proof.
    induction kvs as [|[k v] r IH]; intros d Hq Hd; [exact Hd|].
    inversion Hq as [|? ? Hk Hr]; subst. cbn [fst] in Hk.
    rewrite api_update_cons. destruct (valid_pairb k v) eqn:E; [|exact Hd].
    apply IH; [exact Hr|]. apply Hset; [apply valid_pairb_spec, E | exact Hk | exact Hd].
  Qed.

  Lemma api_popitem_inv d : P d -> P (fst (api_popitem d)).
  Proof.
    destruct d as [|[k v] r]; intros Hd; [exact Hd|].
    rewrite api_popitem_cons. cbn [fst]. rewrite <- (dict_remove_head k v r). apply Hrem, Hd.
  Qed.

  Lemma api_clear_loop_inv n : forall d, P d -> P (fst (api_clear_loop n d)).
  Proof.
    induction n as [|n IH]; intros d Hd; [exact Hd|].
    destruct d as [|[k v] r]; cbn [api_clear_loop].
    - rewrite api_popitem_nil. exact Hd.
    - rewrite api_popitem_cons. apply IH. rewrite <- (dict_remove_head k v r). apply Hrem, Hd.
  Qed.

  Lemma api_step_inv d op : op_keys Q op -> P d -> P (fst (api_step d op)).
  Proof.
    destruct op as [id v|kvs|id v|id|id| | |id|id| ]; cbn [api_step op_keys]; intros Hq Hd.
    - apply api_setitem_inv; assumption.
    - apply api_update_inv; assumption.
    - rewrite api_setdefault_eq. destruct (dict_get id d); [exact Hd|].
      destruct (valid_pairb id v) eqn:E; cbn [fst]; [|exact Hd].
      apply Hset; [apply valid_pairb_spec, E | exact Hq | exact Hd].
    - rewrite api_delitem_eq. destruct (dict_mem id d); cbn [fst]; [apply Hrem, Hd | exact Hd].
    - rewrite api_pop_eq. destruct (dict_get id d); cbn [fst]; [apply Hrem, Hd | exact Hd].
    - apply api_popitem_inv, Hd.
    - apply api_clear_loop_inv, Hd.
    - destruct (blocks_getitem id d); exact Hd.
    - exact Hd.
    - exact Hd.
  Qed.

  Lemma api_run_inv ops : forall d, Forall (op_keys Q) ops -> P d -> P (fst (api_run d ops)).
  Proof.
    induction ops as [|op r IH]; intros d Hq Hd; [exact Hd|].
    inversion Hq as [|? ? Ho Hr]; subst. cbn [api_run].
    pose proof (api_step_inv d op Ho Hd) as H1. destruct (api_step d op) as [d1 o]. cbn [fst] in H1.
    pose proof (IH d1 Hr H1) as H2. destruct (api_run d1 r) as [d2 os]. exact H2.
  Qed.
End Invariant.

Lemma op_keys_True op : op_keys (fun _ => True) op.
Proof.
  destruct op; cbn [op_keys]; try exact I. apply Forall_forall. intros ? _. exact I.
Qed.

Lemma ops_keys_True ops : Forall (op_keys (fun _ => True)) ops.
Proof. apply Forall_forall. intros op _. apply op_keys_True. Qed.

Lemma wf_set k v d : valid_pair k v -> True -> Forall entry_wf d -> Forall entry_wf (dict_set k v d).
Proof.
  intros Hv _ Hd. apply dict_set_wf; [apply Hv | apply valid_pair_entry_wf, Hv | exact Hd].
Qed.

Theorem api_step_wf d op : Forall entry_wf d -> Forall entry_wf (fst (api_step d op)).
Proof.
  apply (api_step_inv (Forall entry_wf) (fun _ => True) wf_set
           (fun k d => dict_remove_wf k d)). apply op_keys_True.
Qed.

Theorem api_step_nodup d op : NoDup (map fst d) -> NoDup (map fst (fst (api_step d op))).
Proof.
  apply (api_step_inv (fun d => NoDup (map fst d)) (fun _ => True)
           (fun k v d _ _ => dict_set_nodup k v d) (fun k d => dict_remove_nodup k d)).
  apply op_keys_True.
Qed.

Theorem api_run_wf ops d : Forall entry_wf d -> Forall entry_wf (fst (api_run d ops)).
Proof.
  apply (api_run_inv (Forall entry_wf) (fun _ => True) wf_set (fun k d => dict_remove_wf k d)).
  apply ops_keys_True.
Qed.

Theorem api_run_nodup ops d : NoDup (map fst d) -> NoDup (map fst (fst (api_run d ops))).
Proof.
  apply (api_run_inv (fun d => NoDup (map fst d)) (fun _ => True)
           (fun k v d _ _ => dict_set_nodup k v d) (fun k d => dict_remove_nodup k d)).
  apply ops_keys_True.
Qed.

(* Blocks() followed by any sequence of calls *)
Theorem api_reachable ops :
  Forall entry_wf (fst (api_run [] ops)) /\ NoDup (map fst (fst (api_run [] ops))).
Proof. split; [apply api_run_wf; constructor | apply api_run_nodup; constructor]. Qed.

(* ------------------------------------------------------------------ *)
(* (c) update                                                           *)
(* the specification: a left fold of Blocks.__setitem__ over the pairs whose
   state carries the first exception, after which nothing is assigned *)
Definition update_fold_step (st : dict * api_out) (kv : str * str) : dict * api_out :=
  match snd st with
  | AoNone =>
      match blocks_setitem (fst kv) (snd kv) (fst st) with
      | Ok d' => (d', AoNone)
      | Err e => (fst st, AoErr e)
      end
  | _ => st
  end.

Definition update_spec (kvs : list (str * str)) (d : dict) : dict * api_out :=
  fold_left update_fold_step kvs (d, AoNone).

Definition set_all (kvs : list (str * str)) (d : dict) : dict :=
  fold_left (fun d kv => dict_set (fst kv) (snd kv) d) kvs d.

Lemma update_fold_stuck kvs d e :
  fold_left update_fold_step kvs (d, AoErr e) = (d, AoErr e).
Proof. induction kvs as [|kv r IH]; cbn [fold_left]; [reflexivity|]. exact IH. Qed.

Theorem update_is_fold kvs d : api_step d (AUpdate kvs) = update_spec kvs d.
Proof.
  cbn [api_step]. unfold update_spec. revert d.
  induction kvs as [|[k v] r IH]; intros d; [reflexivity|].
  rewrite api_update_cons. cbn [fold_left]. unfold update_fold_step at 2. cbn [fst snd].
  rewrite blocks_setitem_eq. destruct (valid_pairb k v).
  - apply IH.
  - rewrite update_fold_stuck. reflexivity.
Qed.

Theorem update_all_valid kvs d : Forall valid_kv kvs ->
  api_step d (AUpdate kvs) = (set_all kvs d, AoNone).
Proof.
  cbn [api_step]. unfold set_all. revert d.
  induction kvs as [|[k v] r IH]; intros d H; [reflexivity|].
  inversion H as [|? ? Hk Hr]; subst. unfold valid_kv in Hk. cbn [fst snd] in Hk.
  rewrite api_update_cons. apply valid_pairb_spec in Hk. rewrite Hk. cbn [fold_left fst snd].
  apply IH, Hr.
Qed.

(* the pairs before the first invalid one are assigned and stay assigned; the
   pairs after it are not looked at *)
Theorem update_first_invalid good bad rest d : Forall valid_kv good -> ~ valid_kv bad ->
  api_step d (AUpdate (good ++ bad :: rest)) = (set_all good d, AoErr HeaderError).
Proof.
  cbn [api_step]. unfold set_all. revert d.
  induction good as [|[k v] r IH]; intros d H Hb.
  - destruct bad as [k v]. cbn [app fold_left]. rewrite api_update_cons.
    apply valid_pairb_false in Hb. cbn [fst snd] in Hb. rewrite Hb. reflexivity.
  - inversion H as [|? ? Hk Hr]; subst. unfold valid_kv in Hk. cbn [fst snd] in Hk.
    cbn [app]. rewrite api_update_cons. apply valid_pairb_spec in Hk. rewrite Hk.
    cbn [fold_left fst snd]. apply IH; assumption.
Qed.

Lemma api_update_out kvs : forall d,
  snd (api_update kvs d) = if forallb valid_kvb kvs then AoNone else AoErr HeaderError.
Proof.
  induction kvs as [|[k v] r IH]; intros d; [reflexivity|].
  rewrite api_update_cons. cbn [forallb]. unfold valid_kvb at 1. cbn [fst snd].
  destruct (valid_pairb k v); cbn [andb]; [apply IH | reflexivity].
Qed.

Lemma forallb_valid_true kvs : forallb valid_kvb kvs = true <-> Forall valid_kv kvs.
Proof.
  rewrite forallb_forall, Forall_forall. unfold valid_kvb, valid_kv.
  split; intros H x Hx; apply valid_pairb_spec, H, Hx.
Qed.

Lemma forallb_valid_false kvs : forallb valid_kvb kvs = false <-> Exists (fun kv => ~ valid_kv kv) kvs.
Proof.
  induction kvs as [|kv r IH]; cbn [forallb].
  - split; [discriminate | intros H; inversion H].
  - rewrite andb_false_iff, Exists_cons, IH. unfold valid_kvb at 1, valid_kv at 1.
    rewrite valid_pairb_false. tauto.
Qed.

(* ------------------------------------------------------------------ *)
(* (b) when each method raises, and what                                *)
Theorem setitem_error_iff d id v :
  snd (api_step d (ASetItem id v)) = AoErr HeaderError <->
  ~ (length id = 2%nat /\ ascii_alphanumeric id = true /\ ascii_printable v = true).
Proof.
  cbn [api_step]. rewrite api_setitem_eq. fold (valid_pair id v). rewrite <- valid_pairb_false.
  destruct (valid_pairb id v); cbn [snd]; split; intros H; try reflexivity; discriminate H.
Qed.

Theorem setitem_ok_iff d id v :
  snd (api_step d (ASetItem id v)) = AoNone <-> valid_pair id v.
Proof.
  cbn [api_step]. rewrite api_setitem_eq, <- valid_pairb_spec.
  destruct (valid_pairb id v); cbn [snd]; split; intros H; try reflexivity; discriminate H.
Qed.

Theorem update_error_iff d kvs :
  snd (api_step d (AUpdate kvs)) = AoErr HeaderError <-> Exists (fun kv => ~ valid_kv kv) kvs.
Proof.
  cbn [api_step]. rewrite api_update_out, <- forallb_valid_false.
  destruct (forallb valid_kvb kvs); split; intros H; try reflexivity; discriminate H.
Qed.

Theorem update_ok_iff d kvs :
  snd (api_step d (AUpdate kvs)) = AoNone <-> Forall valid_kv kvs.
Proof.
  cbn [api_step]. rewrite api_update_out, <- forallb_valid_true.
  destruct (forallb valid_kvb kvs); split; intros H; try reflexivity; discriminate H.
Qed.

Theorem setdefault_error_iff d id v :
  snd (api_step d (ASetDefault id v)) = AoErr HeaderError <->
  dict_mem id d = false /\ ~ valid_pair id v.
Proof.
  cbn [api_step]. rewrite api_setdefault_eq, <- valid_pairb_false, <- dict_get_none_iff.
  destruct (dict_get id d); [split; [discriminate | intros [D _]; discriminate D]|].
  destruct (valid_pairb id v); cbn [snd]; split; try discriminate; try tauto.
  intros [_ D]. discriminate D.
Qed.

Theorem delitem_error_iff d id :
  snd (api_step d (ADelItem id)) = AoErr (Crash CKey) <-> dict_mem id d = false.
Proof.
  cbn [api_step]. rewrite api_delitem_eq.
  destruct (dict_mem id d); cbn [snd]; split; intros H; try reflexivity; discriminate H.
Qed.

Theorem pop_error_iff d id :
  snd (api_step d (APop id)) = AoErr (Crash CKey) <-> dict_mem id d = false.
Proof.
  cbn [api_step]. rewrite api_pop_eq, <- dict_get_none_iff.
  destruct (dict_get id d); cbn [snd]; split; intros H; try reflexivity; discriminate H.
Qed.

Theorem getitem_error_iff d id :
  snd (api_step d (AGetItem id)) = AoErr (Crash CKey) <-> dict_mem id d = false.
Proof.
  rewrite api_getitem_eq, <- dict_get_none_iff.
  destruct (dict_get id d); cbn [snd]; split; intros H; try reflexivity; discriminate H.
Qed.

Theorem popitem_error_iff d :
  snd (api_step d APopItem) = AoErr (Crash CKey) <-> d = [].
Proof.
  cbn [api_step]. destruct d as [|[k v] r].
  - rewrite api_popitem_nil. split; reflexivity.
  - rewrite api_popitem_cons. split; discriminate.
Qed.

(* clear, in, len never raise *)
Theorem total_ops_no_error d op e :
  match op with AClear | AContains _ | ALen => True | _ => False end ->
  snd (api_step d op) <> AoErr e.
Proof.
  destruct op; intros []; [rewrite api_clear_eq|cbn [api_step]..]; discriminate.
Qed.

Definition raises_header_error (op : api_op) : Prop :=
  match op with ASetItem _ _ | AUpdate _ | ASetDefault _ _ => True | _ => False end.
Definition raises_key_error (op : api_op) : Prop :=
  match op with ADelItem _ | APop _ | AGetItem _ | APopItem => True | _ => False end.

(* the only exceptions of the whole API *)
Theorem api_step_errors d op e : snd (api_step d op) = AoErr e ->
  (e = HeaderError /\ raises_header_error op) \/ (e = Crash CKey /\ raises_key_error op).
Proof.
  destruct op as [id v|kvs|id v|id|id| | |id|id| ]; cbn [raises_header_error raises_key_error].
  - cbn [api_step]. rewrite api_setitem_eq. destruct (valid_pairb id v); cbn [snd]; intros H;
      [discriminate H | injection H as <-; auto].
  - cbn [api_step]. rewrite api_update_out. destruct (forallb valid_kvb kvs); intros H;
      [discriminate H | injection H as <-; auto].
  - cbn [api_step]. rewrite api_setdefault_eq. destruct (dict_get id d); [discriminate|].
    destruct (valid_pairb id v); cbn [snd]; intros H; [discriminate H | injection H as <-; auto].
  - cbn [api_step]. rewrite api_delitem_eq. destruct (dict_mem id d); cbn [snd]; intros H;
      [discriminate H | injection H as <-; auto].
  - cbn [api_step]. rewrite api_pop_eq. destruct (dict_get id d); cbn [snd]; intros H;
      [discriminate H | injection H as <-; auto].
  - cbn [api_step]. destruct d as [|[k v] r]; [rewrite api_popitem_nil | rewrite api_popitem_cons];
      cbn [snd]; intros H; [injection H as <-; auto | discriminate H].
  - rewrite api_clear_eq. discriminate.
  - rewrite api_getitem_eq. destruct (dict_get id d); cbn [snd]; intros H;
      [discriminate H | injection H as <-; auto].
  - cbn [api_step]. discriminate.
  - cbn [api_step]. discriminate.
Qed.

(* a call that raises leaves the object as it was - except update, which keeps
   the assignments made before the failing one (update_first_invalid) *)
Theorem api_step_error_unchanged d op e : snd (api_step d op) = AoErr e ->
  (forall kvs, op <> AUpdate kvs) -> fst (api_step d op) = d.
Proof.
  destruct op as [id v|kvs|id v|id|id| | |id|id| ]; intros H Hu.
  - revert H. cbn [api_step]. rewrite api_setitem_eq. destruct (valid_pairb id v); [discriminate | reflexivity].
  - exfalso. exact (Hu kvs eq_refl).
  - revert H. cbn [api_step]. rewrite api_setdefault_eq. destruct (dict_get id d); [discriminate|].
    destruct (valid_pairb id v); [discriminate | reflexivity].
  - revert H. cbn [api_step]. rewrite api_delitem_eq. destruct (dict_mem id d); [discriminate | reflexivity].
  - revert H. cbn [api_step]. rewrite api_pop_eq. destruct (dict_get id d); [discriminate | reflexivity].
  - revert H. cbn [api_step]. destruct d as [|[k v] r]; [reflexivity | rewrite api_popitem_cons; discriminate].
  - revert H. rewrite api_clear_eq. discriminate.
  - rewrite api_getitem_eq. destruct (dict_get id d); reflexivity.
  - reflexivity.
  - reflexivity.
Qed.

(* ------------------------------------------------------------------ *)
(* (d) setdefault                                                       *)
(* an id that is present: the stored value comes back, whatever the default -
   the default is not validated and nothing is assigned *)
Theorem setdefault_existing d id v : dict_mem id d = true ->
  exists s, dict_get id d = Some s /\ In (id, s) d /\
            api_step d (ASetDefault id v) = (d, AoStr s).
Proof.
  intros H. destruct (dict_mem_get _ _ H) as (s & Hs). exists s.
  split; [exact Hs|]. split; [apply dict_get_in, Hs|].
  cbn [api_step]. rewrite api_setdefault_eq, Hs. reflexivity.
Qed.

(* an id that is absent: blocks[id] = v (validation included), then v comes back *)
Theorem setdefault_missing d id v : dict_mem id d = false ->
  api_step d (ASetDefault id v) =
  match api_step d (ASetItem id v) with
  | (d', AoNone) => (d', AoStr v)
  | r => r
  end.
Proof.
  intros H. apply dict_get_none_iff in H. cbn [api_step].
  rewrite api_setdefault_eq, api_setitem_eq, H. destruct (valid_pairb id v); reflexivity.
Qed.

Theorem setdefault_missing_valid d id v : dict_mem id d = false -> valid_pair id v ->
  api_step d (ASetDefault id v) = (d ++ [(id, v)], AoStr v).
Proof.
  intros H Hv. cbn [api_step]. rewrite api_setdefault_eq.
  apply valid_pairb_spec in Hv. rewrite Hv, dict_set_new by exact H.
  apply dict_get_none_iff in H. rewrite H. reflexivity.
Qed.

(* ------------------------------------------------------------------ *)
(* (e) pop, popitem, clear                                              *)
Theorem pop_is_get_then_del d id :
  api_step d (APop id) =
  match snd (api_step d (AGetItem id)) with
  | AoStr v => (fst (api_step d (ADelItem id)), AoStr v)
  | o => (d, o)
  end.
Proof.
  rewrite api_getitem_eq. cbn [api_step]. rewrite api_pop_eq, api_delitem_eq.
  destruct (dict_get id d) as [v|] eqn:E; cbn [snd]; [|reflexivity].
  rewrite (dict_get_some_mem _ _ _ E). reflexivity.
Qed.

Theorem pop_present d id v : dict_get id d = Some v ->
  api_step d (APop id) = (dict_remove id d, AoStr v).
Proof. intros H. cbn [api_step]. rewrite api_pop_eq, H. reflexivity. Qed.

(* the first entry in insertion order; no premise on the dict is needed (in
   particular not NoDup: __getitem__ and __delitem__ both act on the first
   entry with the id, which is the head) *)
Theorem popitem_first k v r : api_step ((k, v) :: r) APopItem = (r, AoPair k v).
Proof. cbn [api_step]. apply api_popitem_cons. Qed.

Theorem clear_empties d : fst (api_step d AClear) = [].
Proof. rewrite api_clear_eq. reflexivity. Qed.

Theorem clear_returns_none d : snd (api_step d AClear) = AoNone.
Proof. rewrite api_clear_eq. reflexivity. Qed.

(* len(self) iterations are exactly enough: the popitem that follows raises the
   KeyError that ends the loop, and more fuel changes nothing *)
Theorem clear_exit d :
  api_step (fst (api_step d AClear)) APopItem = ([], AoErr (Crash CKey)).
Proof. rewrite clear_empties. reflexivity. Qed.

Theorem clear_fuel_enough n d : (length d <= n)%nat -> api_clear_loop n d = api_step d AClear.
Proof.
  intros H. rewrite api_clear_eq, api_clear_loop_eq, skipn_all2 by exact H. reflexivity.
Qed.

(* ------------------------------------------------------------------ *)
(* (f) order                                                            *)
Theorem setitem_existing_order d id v : valid_pair id v -> dict_mem id d = true ->
  exists l1 old l2, d = l1 ++ (id, old) :: l2 /\ ~ In id (map fst l1) /\
    api_step d (ASetItem id v) = (l1 ++ (id, v) :: l2, AoNone) /\
    map fst (fst (api_step d (ASetItem id v))) = map fst d.
Proof.
  intros Hv Hm. destruct (dict_set_split_existing id v d Hm) as (l1 & old & l2 & Hd & Hn & _ & Hs).
  exists l1, old, l2. split; [exact Hd|]. split; [exact Hn|].
  cbn [api_step]. rewrite api_setitem_eq. apply valid_pairb_spec in Hv. rewrite Hv, Hs. cbn [fst].
  split; [reflexivity|]. rewrite Hd, !map_app. reflexivity.
Qed.

Theorem setitem_new_appends d id v : valid_pair id v -> dict_mem id d = false ->
  api_step d (ASetItem id v) = (d ++ [(id, v)], AoNone).
Proof.
  intros Hv Hm. cbn [api_step]. rewrite api_setitem_eq. apply valid_pairb_spec in Hv.
  rewrite Hv, dict_set_new by exact Hm. reflexivity.
Qed.

(* del / pop remove the (first) entry with that id; the others keep their order *)
Theorem delitem_order d id : dict_mem id d = true ->
  exists l1 v l2, d = l1 ++ (id, v) :: l2 /\ ~ In id (map fst l1) /\
    api_step d (ADelItem id) = (l1 ++ l2, AoNone) /\
    api_step d (APop id) = (l1 ++ l2, AoStr v).
Proof.
  intros Hm. destruct (dict_remove_split id d Hm) as (l1 & v & l2 & Hd & Hn & Hg & Hr).
  exists l1, v, l2. split; [exact Hd|]. split; [exact Hn|]. cbn [api_step].
  rewrite api_delitem_eq, api_pop_eq, Hm, Hg, Hr. split; reflexivity.
Qed.

(* with distinct ids (every reachable Blocks object), exactly the entries with
   another id remain, and the id is gone *)
Theorem delitem_filter d id : NoDup (map fst d) -> dict_mem id d = true ->
  fst (api_step d (ADelItem id)) = filter (other_id id) d /\
  fst (api_step d (APop id)) = filter (other_id id) d /\
  dict_mem id (fst (api_step d (ADelItem id))) = false.
Proof.
  intros Hnd Hm. destruct (dict_mem_get _ _ Hm) as (v & Hg). cbn [api_step].
  rewrite api_delitem_eq, api_pop_eq, Hm, Hg. cbn [fst].
  rewrite <- dict_remove_filter by exact Hnd.
  split; [reflexivity|]. split; [reflexivity|]. apply dict_remove_nodup_absent, Hnd.
Qed.

(* ------------------------------------------------------------------ *)
(* (g) the header invariants                                            *)
Theorem api_run_header_wf h ops : header_wf h ->
  header_wf (set_blocks h (fst (api_run (blocks h) ops))).
Proof.
  intros (V & A & B & C & D & E & F & G). unfold header_wf, set_blocks.
  cbn [version_id key_usage algorithm mode_of_use version_num exportability reserved blocks].
  repeat (split; [assumption|]). apply api_run_wf, G.
Qed.

(* [header_ok] excludes pad ids ("PB" in any case), which __setitem__ accepts:
   the premise is that no op inserts one *)
Definition no_pad (id : str) : Prop := is_pad_id id = false.

Lemma op_pad_free_keys op : op_pad_free op = true -> op_keys no_pad op.
Proof.
  destruct op; cbn [op_pad_free op_keys]; intros H; try exact I; try (apply negb_true_iff, H).
  apply Forall_forall. intros kv Hin. rewrite forallb_forall in H. apply negb_true_iff, H, Hin.
Qed.

Lemma dict_ok_set k v d : valid_pair k v -> no_pad k -> dict_ok d -> dict_ok (dict_set k v d).
Proof.
  intros (L & A & P) Hp [Hf Hn]. split; [|apply dict_set_nodup, Hn].
  apply dict_set_entries; [|exact Hf]. unfold block_entry_ok. cbn [fst snd]. auto.
Qed.

Lemma dict_ok_remove k d : dict_ok d -> dict_ok (dict_remove k d).
Proof. intros [Hf Hn]. split; [apply dict_remove_Forall, Hf | apply dict_remove_nodup, Hn]. Qed.

Theorem api_step_dict_ok d op : op_pad_free op = true -> dict_ok d -> dict_ok (fst (api_step d op)).
Proof.
  intros H. apply (api_step_inv dict_ok no_pad dict_ok_set dict_ok_remove), op_pad_free_keys, H.
Qed.

Theorem api_run_dict_ok ops d : Forall (fun op => op_pad_free op = true) ops ->
  dict_ok d -> dict_ok (fst (api_run d ops)).
Proof.
  intros H. apply (api_run_inv dict_ok no_pad dict_ok_set dict_ok_remove).
  eapply Forall_impl; [|exact H]. intros op. apply op_pad_free_keys.
Qed.

Theorem api_run_header_ok h ops : Forall (fun op => op_pad_free op = true) ops ->
  header_ok h -> header_ok (set_blocks h (fst (api_run (blocks h) ops))).
Proof.
  intros Hp (V & A & B & C & D & E & F & G & N). unfold header_ok, set_blocks.
  cbn [version_id key_usage algorithm mode_of_use version_num exportability reserved blocks].
  repeat (split; [assumption|]). apply (api_run_dict_ok ops (blocks h) Hp). split; assumption.
Qed.

(* the premise is needed: blocks["PB"] = "" is accepted by __setitem__ (the
   header stays header_wf) and the result is not header_ok *)
Lemma header_ok_pad_premise_needed :
  exists h ops, header_ok h /\
    header_wf (set_blocks h (fst (api_run (blocks h) ops))) /\
    ~ header_ok (set_blocks h (fst (api_run (blocks h) ops))).
Proof.
  exists default_header, [ASetItem [80; 66] []]. split; [exact default_header_ok|].
  split; [apply api_run_header_wf, default_header_wf|].
  intros (_ & _ & _ & _ & _ & _ & _ & G & _).
  assert (E : blocks (set_blocks default_header
                (fst (api_run (blocks default_header) [ASetItem [80; 66] []]))) = [([80; 66], [])])
    by (vm_compute; reflexivity).
  rewrite E in G. apply Forall_inv in G. destruct G as (_ & _ & D & _). vm_compute in D. discriminate D.
Qed.

(* without distinct ids (no reachable object) del removes the first entry only *)
Lemma delitem_filter_needs_nodup :
  exists d id, dict_mem id d = true /\
    fst (api_step d (ADelItem id)) <> filter (other_id id) d.
Proof.
  exists [([75; 83], [49]); ([75; 83], [50])], [75; 83]. split; [reflexivity|].
  vm_compute. discriminate.
Qed.
