(* CMAC (NIST SP 800-38B, RFC 4493) and the plain CBC-MAC (ISO/IEC 9797-1 MAC
   algorithm 1) over an abstract block cipher, written from the standards.
   Shares no code with Model/: blocks are byte lists, the xor is the
   position-wise [xor_pos], the subkey doubling is arithmetic on the big-endian
   integer value of the block (not the mask-and-shift of psec). *)
From Psec Require Import Lib.Base Cipher.Cipher Proofs.XorLemmas.
Open Scope N_scope.

(* R_b of SP 800-38B section 5.3: 0^59 11011 for 64-bit blocks, 0^120 10000111
   for 128-bit blocks *)
Definition cmac_R (bsz : nat) : N :=
  match bsz with 8%nat => 27 | 16%nat => 135 | _ => 0 end.

(* MSB_1(b) = 1 *)
Definition msb_set (b : list N) : bool := 256 ^ lenN b / 2 <=? be_int b.

(* SP 800-38B 6.1 steps 2-3:  b << 1  if MSB_1(b) = 0,  (b << 1) xor R_b  otherwise;
   "<< 1" discards the bit shifted out on the left *)
Definition dbl (b : list N) : list N :=
  let n := length b in
  let shifted := (2 * be_int b) mod 256 ^ N.of_nat n in
  be_bytes n (if msb_set b then N.lxor shifted (cmac_R n) else shifted).

(* L = CIPH_K(0^b), K1 = dbl L, K2 = dbl K1 *)
Definition cmac_L (c : cipher) (key : list N) : list N := enc c key (repeat 0 (bs c)).
Definition cmac_K1 (c : cipher) (key : list N) : list N := dbl (cmac_L c key).
Definition cmac_K2 (c : cipher) (key : list N) : list N := dbl (cmac_K1 c key).

(* M_n* || 1 0^j  for an incomplete (possibly empty) last block *)
Definition pad10 (bsz : nat) (m : list N) : list N :=
  m ++ 128 :: repeat 0 (bsz - length m - 1).

(* n steps of  X := CIPH_K (X xor M_i)  over the first n blocks of m *)
Fixpoint cbc_chain (c : cipher) (key : list N) (n : nat) (x m : list N) : list N :=
  match n with
  | O => x
  | S n' => cbc_chain c key n' (enc c key (xor_pos x (firstn (bs c) m))) (skipn (bs c) m)
  end.

(* ISO/IEC 9797-1 MAC algorithm 1 on a message that is a whole number of blocks
   (H_0 = 0^b, no output transformation, no truncation) *)
Definition cbc_mac (c : cipher) (key m : list N) : list N :=
  cbc_chain c key (length m / bs c) (repeat 0 (bs c)) m.

(* ISO/IEC 9797-1 padding method 1: zero bytes up to a positive block multiple *)
Definition iso_pad1 (bsz : nat) (m : list N) : list N :=
  if (length m =? 0)%nat then repeat 0 bsz
  else m ++ repeat 0 ((bsz - length m mod bsz) mod bsz).

(* SP 800-38B 6.2 / RFC 4493 2.4.  With n = ceil(len / b) (n = 1 for the empty
   message) the first n - 1 = (len - 1) / b blocks are chained from X = 0^b;
   the last block M_n is xored with K1 when complete, else padded and xored
   with K2; T = CIPH_K (X xor M_last), returned in full. *)
Definition cmac (c : cipher) (key msg : list N) : list N :=
  let b := bs c in
  let nfull := ((length msg - 1) / b)%nat in
  let x := cbc_chain c key nfull (repeat 0 b) msg in
  let last := skipn (nfull * b) msg in
  let mlast := if (length last =? b)%nat then xor_pos last (cmac_K1 c key)
               else xor_pos (pad10 b last) (cmac_K2 c key) in
  enc c key (xor_pos x mlast).
