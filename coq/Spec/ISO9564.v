(* ISO 9564-1 PIN block formats 0, 2, 3 and 4, written from the standard.
   Shares no code with Model/Pinblock.v: a block is the list of its nibbles
   (values 0..15, most significant first): 16 nibbles for formats 0/2/3 and
   32 nibbles for each format 4 field.  The PIN and the PAN are strings of
   ASCII decimal digits (code points 48..57).  The "modulo-2 addition" of two
   blocks is the position-wise xor [xor_pos] of their nibbles. *)
From Psec Require Import Lib.Base Proofs.XorLemmas.
Open Scope N_scope.

(* nibble values of a string of decimal digits *)
Definition digits (s : list N) : list N := map (fun c => c - 48) s.

(* a PIN: 4 to 12 decimal digits *)
Definition pin_ok (p : list N) : Prop :=
  (4 <= length p <= 12)%nat /\ Forall (fun c => 48 <= c <= 57) p.

(* ------------------------------------------------------------------ *)
(* construction                                                         *)

(* format 0 plain text PIN field:  0 | L | P..P | F..F *)
Definition spec_pin_block_0 (pin : list N) : list N :=
  [0; lenN pin] ++ digits pin ++ repeat 15 (14 - length pin).

(* format 2:  2 | L | P..P | F..F *)
Definition spec_pin_block_2 (pin : list N) : list N :=
  [2; lenN pin] ++ digits pin ++ repeat 15 (14 - length pin).

(* format 3:  3 | L | P..P | fill, each fill nibble in 10..15 *)
Definition spec_pin_block_3 (pin fill : list N) : list N :=
  [3; lenN pin] ++ digits pin ++ firstn (14 - length pin) fill.

(* account number field: 0000 and the 12 right-most digits of the PAN
   excluding the check digit, i.e. the digits at positions len-13 .. len-2 *)
Definition spec_pan_block (pan : list N) : list N :=
  [0; 0; 0; 0] ++ digits (firstn 12 (skipn (length pan - 13) pan)).

(* formats 0 and 3: PIN field xor account number field *)
Definition spec_block_0 (pin pan : list N) : list N :=
  xor_pos (spec_pin_block_0 pin) (spec_pan_block pan).
Definition spec_block_3 (pin pan fill : list N) : list N :=
  xor_pos (spec_pin_block_3 pin fill) (spec_pan_block pan).

(* format 4 plain text PIN field:  4 | L | P..P | A..A (to 16 nibbles) | 16 random nibbles *)
Definition spec_pin_field_4 (pin tape_nibbles : list N) : list N :=
  [4; lenN pin] ++ digits pin ++ repeat 10 (14 - length pin) ++ tape_nibbles.

(* format 4 plain text PAN field:  M | PAN right-justified with leading zeros to at
   least 12 digits | zero nibbles up to 32;  M = max 0 (len - 12) *)
Definition spec_pan_field_4 (pan : list N) : list N :=
  [N.of_nat (Nat.max 0 (length pan - 12))] ++
  repeat 0 (12 - length pan) ++ digits pan ++
  repeat 0 (32 - (1 + Nat.max 12 (length pan))).

(* format 4 encipherment with a block cipher E on 16-byte blocks:
   E_K (E_K (PIN field) xor PAN field) *)
Definition spec_encipher_4 (E : list N -> list N -> list N) (key pin_field pan_field : list N) : list N :=
  E key (xor_pos (E key pin_field) pan_field).

(* ------------------------------------------------------------------ *)
(* well-formedness of a plain text block [nib] holding the PIN [p]:
   nibble 0 is the control field, nibble 1 the PIN length L = 4..12, nibbles
   2..L+1 the PIN digits, and nibbles L+2..15 satisfy the format's fill rule *)
Definition wf_fields (ctrl : N) (fill_ok : N -> Prop) (nib p : list N) : Prop :=
  pin_ok p /\
  nth 0 nib 16 = ctrl /\
  nth 1 nib 16 = lenN p /\
  firstn (length p) (skipn 2 nib) = digits p /\
  Forall fill_ok (firstn (14 - length p) (skipn (2 + length p) nib)).

Definition wf0 (nib p : list N) : Prop := length nib = 16%nat /\ wf_fields 0 (fun n => n = 15) nib p.
Definition wf2 (nib p : list N) : Prop := length nib = 16%nat /\ wf_fields 2 (fun n => n = 15) nib p.
Definition wf3 (nib p : list N) : Prop := length nib = 16%nat /\ wf_fields 3 (fun n => 10 <= n <= 15) nib p.
(* format 4 PIN field: the fill A runs up to nibble 15; nibbles 16..31 are arbitrary *)
Definition wf4 (nib p : list N) : Prop := length nib = 32%nat /\ wf_fields 4 (fun n => n = 10) nib p.
