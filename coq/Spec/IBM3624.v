(* IBM 3624 PIN generation and PIN offset, from the standard description, at
   the level of decimal digits and nibbles.  Only the Coq standard library and
   the nibble helpers of Spec/CardValues.v; no code of Model/ nor Lib/. *)
From Coq Require Import NArith List Bool.
From Psec Require Import Spec.CardValues.
Import ListNotations.
Open Scope N_scope.

(* numeric value of one hexadecimal character 0-9, A-F, a-f *)
Definition hexchar_value (c : N) : N :=
  if (48 <=? c) && (c <=? 57) then c - 48
  else if (65 <=? c) && (c <=? 70) then c - 55
  else c - 87.

(* validation data: PAN digits [offset, offset+length), at most 16 of them,
   right-padded to 16 nibbles with the pad digit; as an 8-byte block *)
Definition spec_validation_nibbles (pan : list N) (offset length : nat) (pad : N) : list N :=
  pad_right 16 (hexchar_value pad) (firstn 16 (digits_of (firstn length (skipn offset pan)))).

(* natural (intermediate) PIN: every nibble of the encrypted validation data
   replaced through the decimalisation table (16 decimal digits) *)
Definition spec_natural_pin (E : list N -> list N -> list N) (pvk : list N) (table : list N)
           (pan : list N) (offset length : nat) (pad : N) : list N :=
  let block := bytes_of_nibbles (spec_validation_nibbles pan offset length pad) in
  map (fun n => nth (N.to_nat n) (digits_of table) 0) (nibbles_of_bytes (E pvk block)).

(* PIN digit i = natural digit i + offset digit i, modulo 10, for i < |offset| *)
Definition spec_ibm3624_pin (E : list N -> list N -> list N) (pvk table offset pan : list N)
           (pv_offset pv_length : nat) (pad : N) : list N :=
  let nat_pin := spec_natural_pin E pvk table pan pv_offset pv_length pad in
  ascii_of_digits (map (fun p => (fst p + snd p) mod 10) (combine nat_pin (digits_of offset))).

(* offset digit i = PIN digit i - natural digit i, modulo 10, for i < |PIN| *)
Definition spec_ibm3624_offset (E : list N -> list N -> list N) (pvk table pin pan : list N)
           (pv_offset pv_length : nat) (pad : N) : list N :=
  let nat_pin := spec_natural_pin E pvk table pan pv_offset pv_length pad in
  ascii_of_digits (map (fun p => (10 + snd p - fst p) mod 10) (combine nat_pin (digits_of pin))).
