(* ISO/IEC 9797-1 MAC algorithm 1 (CBC-MAC) and MAC algorithm 3 (retail MAC),
   written from the standard over an abstract block cipher.  Shares no code
   with Model/ nor with the CBC functions of Cipher/Cipher.v: the message is a
   list of blocks D_1 .. D_q, the xor is the position-wise [xor_pos]. *)
From Psec Require Import Lib.Base Cipher.Cipher Proofs.XorLemmas.
Open Scope N_scope.

(* iteration  H_i = e_K (H_{i-1} xor D_i)  started from an arbitrary H_0 = h *)
Definition alg1_from (c : cipher) (key h : list N) (blocks : list (list N)) : list N :=
  fold_left (fun h d => enc c key (xor_pos h d)) blocks h.

(* MAC algorithm 1, output transformation 1 (identity): H_0 = 0^n, G = H_q *)
Definition alg1 (c : cipher) (key : list N) (blocks : list (list N)) : list N :=
  alg1_from c key (repeat 0 (bs c)) blocks.

(* MAC algorithm 3: iteration with K, output transformation 3
   G = e_K (d_K' (H_q)) *)
Definition alg3 (c : cipher) (k1 k2 : list N) (blocks : list (list N)) : list N :=
  enc c k1 (dec c k2 (alg1 c k1 blocks)).

(* the padded message cut into n blocks of bsz bytes *)
Fixpoint split_blocks (bsz n : nat) (data : list N) : list (list N) :=
  match n with
  | O => []
  | S n' => firstn bsz data :: split_blocks bsz n' (skipn bsz data)
  end.

(* truncation: the MAC is the leftmost [len] bytes of G *)
Definition mac_truncate (len : nat) (m : list N) : list N := firstn len m.
