(* ASC X9 TR-31:2018 key derivation and key block binding, written from the
   standard over abstract block ciphers.  Shares no code with Model/. *)
From Psec Require Import Lib.Base Cipher.Cipher Proofs.XorLemmas Spec.CMAC.
Open Scope N_scope.

(* ---------------- key derivation (versions B and D) ----------------
   TR-31:2018 section 5.3.2: CMAC in counter mode.  The derivation data is
     counter (1 byte, from 1) | key usage indicator (2) | separator 0x00 (1) |
     algorithm indicator (2) | length of the derived key in bits (2)          *)
Definition kdf_input (counter : N) (usage algorithm bits : N * N) : list N :=
  [counter; fst usage; snd usage; 0; fst algorithm; snd algorithm; fst bits; snd bits].

Definition usage_encryption : N * N := (0, 0).      (* 0x0000 *)
Definition usage_mac : N * N := (0, 1).             (* 0x0001 *)

Definition alg_tdes2 : N * N := (0, 0).             (* 0x0000 2-key TDEA *)
Definition alg_tdes3 : N * N := (0, 1).             (* 0x0001 3-key TDEA *)
Definition alg_aes128 : N * N := (0, 2).            (* 0x0002 *)
Definition alg_aes192 : N * N := (0, 3).            (* 0x0003 *)
Definition alg_aes256 : N * N := (0, 4).            (* 0x0004 *)

Definition bits_128 : N * N := (0, 128).            (* 0x0080 *)
Definition bits_192 : N * N := (0, 192).            (* 0x00C0 *)
Definition bits_256 : N * N := (1, 0).              (* 0x0100 *)

(* the concatenation of CMAC_kbpk(derivation data with counter i), i = 1 .. n *)
Definition kdf_blocks (c : cipher) (kbpk : list N) (usage algorithm bits : N * N)
           (counters : list N) : list N :=
  flat_map (fun i => cmac c kbpk (kdf_input i usage algorithm bits)) counters.

Definition kdf_pair (c : cipher) (kbpk : list N) (algorithm bits : N * N)
           (counters : list N) : list N * list N :=
  (kdf_blocks c kbpk usage_encryption algorithm bits counters,
   kdf_blocks c kbpk usage_mac algorithm bits counters).

(* version B: TDEA CMAC, 8-byte blocks; (KBEK, KBAK) *)
Definition spec_kdf_b (c : cipher) (kbpk : list N) : list N * list N :=
  if (length kbpk =? 16)%nat then kdf_pair c kbpk alg_tdes2 bits_128 [1; 2]
  else if (length kbpk =? 24)%nat then kdf_pair c kbpk alg_tdes3 bits_192 [1; 2; 3]
  else ([], []).

(* version D: AES CMAC, 16-byte blocks, output truncated to the KBPK length *)
Definition spec_kdf_d (c : cipher) (kbpk : list N) : list N * list N :=
  let '(e, a) :=
    if (length kbpk =? 16)%nat then kdf_pair c kbpk alg_aes128 bits_128 [1]
    else if (length kbpk =? 24)%nat then kdf_pair c kbpk alg_aes192 bits_192 [1; 2]
    else if (length kbpk =? 32)%nat then kdf_pair c kbpk alg_aes256 bits_256 [1; 2]
    else ([], []) in
  (firstn (length kbpk) e, firstn (length kbpk) a).

(* versions A and C, section 5.3.1 (variant method): every byte of the KBPK is
   xored with 0x45 ('E') for encryption and 0x4D ('M') for authentication *)
Definition spec_variant (kbpk : list N) : list N * list N :=
  (map (fun b => N.lxor b 69) kbpk, map (fun b => N.lxor b 77) kbpk).

(* ---------------- MACs ---------------- *)
(* B / D: CMAC under KBAK over header text followed by the clear key data
   (length | key | padding); the full block is the MAC (8 resp. 16 bytes) *)
Definition spec_mac_b (c : cipher) (kbak header clear_key_data : list N) : list N :=
  cmac c kbak (header ++ clear_key_data).
Definition spec_mac_d (c : cipher) (kbak header clear_key_data : list N) : list N :=
  cmac c kbak (header ++ clear_key_data).

(* A / C: TDEA CBC-MAC under KBAK over header text followed by the encrypted
   key data, leftmost 4 bytes.  A conforming block makes the input a whole
   number of blocks; psec's zero padding (ISO 9797-1 method 1) is the identity
   there, and is kept so that the definition is total. *)
Definition spec_mac_c (c : cipher) (kbak header enc_key_data : list N) : list N :=
  firstn 4 (cbc_mac c kbak (iso_pad1 (bs c) (header ++ enc_key_data))).

(* ---------------- CBC encryption of the key data ---------------- *)
Fixpoint spec_cbc_enc (c : cipher) (key : list N) (n : nat) (iv m : list N) : list N :=
  match n with
  | O => []
  | S n' => let ct := enc c key (xor_pos (firstn (bs c) m) iv) in
            ct ++ spec_cbc_enc c key n' ct (skipn (bs c) m)
  end.
Fixpoint spec_cbc_dec (c : cipher) (key : list N) (n : nat) (iv ct : list N) : list N :=
  match n with
  | O => []
  | S n' => let b := firstn (bs c) ct in
            xor_pos (dec c key b) iv ++ spec_cbc_dec c key n' b (skipn (bs c) ct)
  end.
Definition spec_encrypt (c : cipher) (key iv m : list N) : list N :=
  spec_cbc_enc c key (length m / bs c) iv m.
Definition spec_decrypt (c : cipher) (key iv ct : list N) : list N :=
  spec_cbc_dec c key (length ct / bs c) iv ct.

(* confidential data: 2-byte key length in bits, key, random padding *)
Definition spec_key_data (key pad : list N) : list N :=
  be_bytes 2 (8 * lenN key) ++ key ++ pad.

(* ---------------- binding methods ----------------
   each returns (encrypted key data, MAC) for a given header text *)
(* B (TDEA) and D (AES) key derivation binding: MAC over the clear data, then
   CBC encryption with the MAC as IV *)
Definition spec_bind_b (c : cipher) (kbpk header clear : list N) : list N * list N :=
  let '(kbek, kbak) := spec_kdf_b c kbpk in
  let mac := spec_mac_b c kbak header clear in
  (spec_encrypt c kbek mac clear, mac).
Definition spec_bind_d (c : cipher) (kbpk header clear : list N) : list N * list N :=
  let '(kbek, kbak) := spec_kdf_d c kbpk in
  let mac := spec_mac_d c kbak header clear in
  (spec_encrypt c kbek mac clear, mac).
(* A / C variant binding: CBC encryption with the first 8 header bytes as IV,
   then MAC over header and ciphertext *)
Definition spec_bind_c (c : cipher) (kbpk header clear : list N) : list N * list N :=
  let '(kbek, kbak) := spec_variant kbpk in
  let ek := spec_encrypt c kbek (firstn 8 header) clear in
  (ek, spec_mac_c c kbak header ek).

(* the key block text: header, then upper-case hex of encrypted data and MAC *)
Definition spec_block_text (header : list N) (em : list N * list N) : list N :=
  header ++ hex_upper (fst em) ++ hex_upper (snd em).

(* ---------------- opening a key block ----------------
   the receiver recomputes the MAC and compares all of it *)
Definition spec_open_b (c : cipher) (kbpk header ek mac : list N) : option (list N) :=
  let '(kbek, kbak) := spec_kdf_b c kbpk in
  let clear := spec_decrypt c kbek mac ek in
  if list_eqb (spec_mac_b c kbak header clear) mac then Some clear else None.
Definition spec_open_d (c : cipher) (kbpk header ek mac : list N) : option (list N) :=
  let '(kbek, kbak) := spec_kdf_d c kbpk in
  let clear := spec_decrypt c kbek mac ek in
  if list_eqb (spec_mac_d c kbak header clear) mac then Some clear else None.
Definition spec_open_c (c : cipher) (kbpk header ek mac : list N) : option (list N) :=
  let '(kbek, kbak) := spec_variant kbpk in
  if list_eqb (spec_mac_c c kbak header ek) mac
  then Some (spec_decrypt c kbek (firstn 8 header) ek) else None.

(* the key inside the confidential data: length in bits, then the key *)
Definition spec_key_of (clear : list N) : list N :=
  firstn (N.to_nat (be_int (firstn 2 clear) / 8)) (skipn 2 clear).

(* ---------------- header text, with the encoder's freedom ----------------
   TR-31:2018 section 4: 16 fixed characters, then the optional blocks.  An
   encoder is free to choose, per optional block, the short or the extended
   form of the block length (with any length of the length field), the letter
   case of every hex digit, and the size and filling of the pad block. *)
Definition hex_digit (upper : bool) (n : N) : N :=
  if n <? 10 then 48 + n else if upper then 55 + n else 87 + n.

(* v written with one hex digit per element of [cases], most significant first *)
Fixpoint hex_num (cases : list bool) (v : N) : list N :=
  match cases with
  | [] => []
  | u :: r => hex_digit u ((v / 16 ^ lenN r) mod 16) :: hex_num r v
  end.

(* v written with w decimal digits *)
Fixpoint dec_num (w : nat) (v : N) : list N :=
  match w with
  | O => []
  | S w' => (48 + (v / 10 ^ N.of_nat w') mod 10) :: dec_num w' v
  end.

Inductive len_form :=
| LenShort (cases : list bool)
    (* 2 hex digits: the length of the whole block *)
| LenExtended (cases_ll : list bool) (ll : N) (cases_len : list bool).
    (* "00", 2 hex digits: the size ll of the length field in bytes, then
       2*ll hex digits: the length of the whole block *)

Definition opt_block_text (id data : list N) (f : len_form) : list N :=
  match f with
  | LenShort cs => id ++ hex_num cs (4 + lenN data) ++ data
  | LenExtended c1 ll c2 =>
      id ++ [48; 48] ++ hex_num c1 ll ++ hex_num c2 (6 + 2 * ll + lenN data) ++ data
  end.

Definition len_form_legal (data : list N) (f : len_form) : Prop :=
  match f with
  | LenShort cs => length cs = 2%nat /\ 4 + lenN data < 256
  | LenExtended c1 ll c2 =>
      length c1 = 2%nat /\ 0 < ll < 256 /\ length c2 = N.to_nat (2 * ll) /\
      6 + 2 * ll + lenN data < 16 ^ (2 * ll)
  end.

Definition item := (list N * list N * len_form)%type.
Definition item_text (it : item) : list N :=
  let '(id, data, f) := it in opt_block_text id data f.

(* version | 4-digit length of the whole key block | usage | algorithm | mode |
   key version number | exportability | 2-digit number of optional blocks |
   reserved | optional blocks (the pad block, if any, last) *)
Definition spec_header_text (version usage alg mode vnum export reserved : list N)
           (total_len : N) (items : list item) : list N :=
  version ++ dec_num 4 total_len ++ usage ++ alg ++ mode ++ vnum ++ export ++
  dec_num 2 (lenN items) ++ reserved ++ flat_map item_text items.
