(* Visa CVV / Mastercard CVC and Visa PVV, written from the standards at the
   level of 4-bit nibbles.  Shares no code with Model/ nor Lib/: only the Coq
   standard library.  A "digit string" is a list of ASCII code points, a
   nibble list a list of values 0..15, a block a list of byte values.
   [E key block] is the single-block encryption of the Triple DES used
   (with an 8-byte key Triple DES is single DES). *)
From Coq Require Import NArith List.
Import ListNotations.
Open Scope N_scope.

(* two nibbles per byte, high nibble first *)
Definition nibbles_of_bytes (b : list N) : list N :=
  flat_map (fun x => [x / 16; x mod 16]) b.

(* packed BCD / hex: two nibbles per byte, high nibble first *)
Fixpoint bytes_of_nibbles (n : list N) : list N :=
  match n with
  | h :: l :: r => 16 * h + l :: bytes_of_nibbles r
  | _ => []
  end.

(* numeric value of each ASCII decimal digit, and back *)
Definition digits_of (s : list N) : list N := map (fun c => c - 48) s.
Definition ascii_of_digits (d : list N) : list N := map (fun x => 48 + x) d.

Definition pad_right (n : nat) (x : N) (l : list N) : list N := l ++ repeat x (n - length l).

Definition xor_bytes (a b : list N) : list N :=
  map (fun p => N.lxor (fst p) (snd p)) (combine a b).

(* decimalisation: scan for the decimal digits first; then, if more symbols
   are wanted, scan again taking A-F minus ten; keep the first [n] symbols *)
Definition spec_decimalize (n : nat) (nibs : list N) : list N :=
  firstn n (filter (fun x => x <? 10) nibs ++
            map (fun x => x - 10) (filter (fun x => 10 <=? x) nibs)).

(* CVV / CVC: PAN, expiry date, service code as 32 nibbles, right-padded
   with zeros; block 1 encrypted under the left key half, xored with
   block 2, encrypted under the double-length key (encrypt-decrypt-encrypt),
   decimalised to 3 digits *)
Definition spec_cvv (E : list N -> list N -> list N)
           (cvk : list N) (pan expiry service_code : list N) : list N :=
  let nib := pad_right 32 0 (digits_of (pan ++ expiry ++ service_code)) in
  let block1 := bytes_of_nibbles (firstn 16 nib) in
  let block2 := bytes_of_nibbles (skipn 16 nib) in
  let r := E cvk (xor_bytes (E (firstn 8 cvk) block1) block2) in
  ascii_of_digits (spec_decimalize 3 (nibbles_of_bytes r)).

(* the same, written directly over single DES with key halves KA | KB *)
Definition spec_cvv_des (des_e des_d : list N -> list N -> list N)
           (cvk : list N) (pan expiry service_code : list N) : list N :=
  let ka := firstn 8 cvk in
  let kb := skipn 8 cvk in
  let nib := pad_right 32 0 (digits_of (pan ++ expiry ++ service_code)) in
  let block1 := bytes_of_nibbles (firstn 16 nib) in
  let block2 := bytes_of_nibbles (skipn 16 nib) in
  let x := xor_bytes (des_e ka block1) block2 in
  let r := des_e ka (des_d kb (des_e ka x)) in
  ascii_of_digits (spec_decimalize 3 (nibbles_of_bytes r)).

(* PVV: the Transformed Security Parameter is the 11 right-most PAN digits
   excluding the check digit, the key index, the 4 PIN digits; encrypted and
   decimalised to 4 digits *)
Definition spec_tsp (pvki pin pan : list N) : list N :=
  digits_of (firstn 11 (skipn (length pan - 12) pan)) ++ digits_of pvki ++ digits_of pin.

Definition spec_pvv (E : list N -> list N -> list N)
           (pvk : list N) (pvki pin pan : list N) : list N :=
  let r := E pvk (bytes_of_nibbles (spec_tsp pvki pin pan)) in
  ascii_of_digits (spec_decimalize 4 (nibbles_of_bytes r)).
