#!/venv/bin/python
"""Offline search (real DES) for inputs whose final cipher block has very few decimal nibbles: the rarest
branches of the CVV / PVV decimalisation.  The witnesses depend only on DES, not on psec, so they are kept as
a corpus (corpus/C09.json, corpus/C10.json) that the checks replay first.  usage: rare_search.py cvv|pvv SEED N MAXDEC"""
import json, random, sys, warnings
warnings.simplefilter("ignore")
from cryptography.hazmat.primitives.ciphers import Cipher, algorithms, modes
kind, seed, want, maxdec = sys.argv[1], int(sys.argv[2]), int(sys.argv[3]), int(sys.argv[4])
rng = random.Random(seed)
def nib(b):
    return [x >> 4 for x in b], [x & 15 for x in b]
def ndec(b):
    return sum(1 for x in b if (x >> 4) < 10) + sum(1 for x in b if (x & 15) < 10)
def frm(ds):
    return bytes((ds[i] << 4) | ds[i + 1] for i in range(0, len(ds), 2))
out = []
while len(out) < want:
    if kind == "cvv":
        cvk = rng.randbytes(16)
        e1 = Cipher(algorithms.TripleDES(cvk[:8]), modes.ECB()).encryptor()
        e2 = Cipher(algorithms.TripleDES(cvk), modes.ECB()).encryptor()
        for _ in range(20000):
            pl = rng.choice((16, 16, 19, 13, 15))
            pan = "%0*d" % (pl, rng.randrange(10 ** pl)); e = "%04d" % rng.randrange(10000); s = "%03d" % rng.randrange(1000)
            ds = [int(c) for c in pan + e + s]; ds += [0] * (32 - len(ds))
            a = e1.update(frm(ds[:16])); b = frm(ds[16:])
            r = e2.update(bytes(x ^ y for x, y in zip(a, b)))
            if ndec(r) <= maxdec:
                out.append({"cvk": cvk.hex(), "pan": pan, "expiry": e, "service_code": s, "final_block": r.hex()})
                print(len(out), r.hex(), file=sys.stderr, flush=True)
                if len(out) >= want: break
    else:
        pvk = rng.randbytes(rng.choice((8, 16, 24)))
        enc = Cipher(algorithms.TripleDES(pvk), modes.ECB()).encryptor()
        for _ in range(20000):
            pvki = str(rng.randrange(10)); pin = "%04d" % rng.randrange(10000); pl = rng.choice((12, 13, 16, 19, 24)); pan = "%0*d" % (pl, rng.randrange(10 ** pl))
            tsp = pan[len(pan) - 12:len(pan) - 1] + pvki + pin
            r = enc.update(frm([int(c) for c in tsp]))
            if ndec(r) <= maxdec:
                out.append({"pvk": pvk.hex(), "pvki": pvki, "pin": pin, "pan": pan, "final_block": r.hex()})
                print(len(out), r.hex(), file=sys.stderr, flush=True)
                if len(out) >= want: break
print(json.dumps(out))
