#!/venv/bin/python
"""Regenerates /verif/MANIFEST.json from the table below (kept valid at all times)."""
import json, os
V = os.path.dirname(os.path.dirname(os.path.abspath(__file__)))
props = [json.loads(l) for l in open(os.path.join(V, "properties.jsonl"))]

COMMON_NOTE = ("Trusted: Coq 8.16.1 kernel (+vm_compute, no native_compute); no axioms (Print Assumptions: closed); "
               "block ciphers abstract under the premise cipher_ok (inhabited by Cipher/Toy.v); CPython primitive "
               "semantics and cryptography/OpenSSL behaviour are modelled (coq/Lib/Base.v, coq/Cipher/Cipher.v) and tied to "
               "/repo by the per-run correspondence (extracted model via ExtrOcamlBasic vs the real psec on the same inputs).")

# id -> (claimed, text, technique, extra note)
CLAIMS = {
 "C08": ("Theorems over the Gallina model of pad_iso_1/2/3 for every message and every block size > 0: exact shape "
         "(data ++ least number of zeros / 0x80 + least zeros / big-endian bit-length block + method 1), minimality, "
         "positive multiple, prefix, injectivity of methods 2 and 3; the model is tied to /repo by differential "
         "correspondence over every length residue and adversarial tails on each run.",
         "Coq proof (induction, lia) over hand-written model + extracted-model/implementation correspondence",
         ""),
}

checks = []
for p in props:
    pid = p["id"]
    if pid in CLAIMS:
        text, tech, note = CLAIMS[pid]
        checks.append({
            "property_id": pid,
            "quick_cmd": "./check %s --tier quick" % pid,
            "thorough_cmd": "./check %s --tier thorough" % pid,
            "evidence_file": "/verif/evidence/%s.json" % pid,
            "replay_cmd_template": "./check %s --replay {path}" % pid,
            "engine": "coq-model-correspondence",
            "level_claimed": {"category": "proof", "text": text, "design_ref": "DESIGN.md section 8, " + pid},
            "level_note": (note + " " if note else "") + COMMON_NOTE,
            "technique": tech,
        })
na = [{"property_id": p["id"], "reason": "check not built yet (work in progress: model exists, theorem/correspondence pending)"}
      for p in props if p["id"] not in CLAIMS]
m = {
 "version": 1,
 "setup_cmd": "./build.sh",
 "hooks": {"guard": "PSEC_VERIF", "enable": "no source hooks are needed: checks import psec from /repo's working tree (PYTHONPATH=/repo) and observe it from outside",
           "baseline_off_cmd": "cd /repo && /venv/bin/python -m pytest -ra -q -p no:cacheprovider --timeout=900 --continue-on-collection-errors",
           "source_commits": [], "add_only": True},
 "engines": [{"name": "coq-model-correspondence", "path": "/verif/check",
              "serves_properties": sorted(CLAIMS), "kind_free_text": "Coq 8.16.1 theorems over a hand-written Gallina model of psec (coq/), tied to /repo on every run by differential correspondence between the extracted model (ocaml/driver) and the real library (harness/)"}],
 "checks": checks,
 "not_applicable": na,
 "notes": "Two genuine defects were repaired in /repo with 'fix:' commits (C09 CVV second decimalisation pass, C15 pad-block ASCII validation); see known_findings.txt and DESIGN.md section 9.",
}
json.dump(m, open(os.path.join(V, "MANIFEST.json"), "w"), indent=1)
print("claimed:", sorted(CLAIMS))
