#!/venv/bin/python
"""Regenerates /verif/MANIFEST.json from the table below (kept valid at all times)."""
import json, os
V = os.path.dirname(os.path.dirname(os.path.abspath(__file__)))
props = [json.loads(l) for l in open(os.path.join(V, "properties.jsonl"))]

COMMON_NOTE = ("Trusted: Coq 8.16.1 kernel (+vm_compute, no native_compute); no axioms (Print Assumptions: closed); "
               "block ciphers abstract under the premise cipher_ok (inhabited by Cipher/Toy.v); CPython primitive "
               "semantics and cryptography/OpenSSL behaviour are modelled (coq/Lib/Base.v, coq/Cipher/Cipher.v) and tied to "
               "/repo by the per-run correspondence (extracted model via ExtrOcamlBasic vs the real psec on the same inputs).")

# id -> (claimed, text, technique, extra note)
TECH = "Coq proof (induction, lia, finite sweeps by vm_compute lifted with forallb_forall) over a hand-written Gallina model + extracted-model/implementation correspondence on every run"
CLAIMS = {
 "C07": ("Theorems for every lawful cipher pair, key, message, padding method and length: generate_cbc_mac = leftmost bytes of ISO 9797-1 "
         "algorithm 1 over the padded message (block size 8/16), generate_retail_mac = algorithm 3 (proved through the implementation's "
         "decrypt-with-IV / continued-chain trick), error cases, single-block EDE and splice corollaries, instantiated for Triple DES built "
         "from any lawful DES. Correspondence: all key sizes x every length residue x paddings x lengths against single-block OpenSSL ECB + hand chaining.", TECH, ""),
 "C08": ("Theorems over the Gallina model of pad_iso_1/2/3 for every message and every block size > 0: exact shape "
         "(data ++ least number of zeros / 0x80 + least zeros / big-endian bit-length block + method 1), minimality, "
         "positive multiple, prefix, injectivity of methods 2 and 3; the model is tied to /repo by differential "
         "correspondence over every length residue and adversarial tails on each run.", TECH, ""),
 "C09": ("Theorem: for every lawful 8-byte-block cipher with TDES key sizes (and for Triple DES over any lawful DES), every 16-byte CVK, PAN <= 19 digits, "
         "4-digit expiry, 3-digit service code: generate_cvv = the nibble-level standard CVV (Spec/CardValues.v), exactly 3 decimal digits; domain "
         "violations give ValueError; the pinned pre-fix behaviour is refuted by a machine-checked witness (C09_legacy_refuted). Correspondence incl. "
         "directed search for the ~1/12000 inputs that need the second decimalisation pass and the recorded real-DES witness.", TECH,
         "Genuine defect repaired in /repo by commit 79e6d68 (fix:), recorded as 'fixed:' in known_findings.txt."),
 "C10": ("Theorem: generate_visa_pvv = standard PVV (TSP, encrypt, decimal digits first then A-F minus ten), always 4 decimal digits, for every lawful "
         "cipher / PVK size / index / PIN / PAN >= 12; domain theorem. Correspondence incl. directed second-pass inputs, all PVK sizes, PAN lengths 12..24.", TECH, ""),
 "C11": ("Theorems: IBM 3624 PIN = natural PIN + offset mod 10, offset = PIN - natural PIN mod 10 (Spec/IBM3624.v), output length = input length, decimal, "
         "offset(pin(o)) = o and pin(offset(p)) = p, pad-case equivalence, window characterisation, domain/no-crash theorems, for every lawful cipher. "
         "Correspondence over all 22 pad characters, windows incl. > 16 and empty, lengths 4..16.", TECH,
         "An empty validation window is accepted at any offset (documented boundary reading, DESIGN.md section 9)."),
 "C19": ("Theorems for every lawful cipher: ECB/CBC decrypt(encrypt(x)) = x and conversely, length and byte-range preservation, rejection iff empty or "
         "non-multiple, never a Crash, ECB blockwise and CBC textbook chaining of the model's wrappers, KCV = leftmost bytes of E(0^8); instantiated for Triple DES. "
         "That OpenSSL's ECB/CBC behave as the model defines them (nothing buffered on update) is what the per-run correspondence measures against "
         "single-block OpenSSL ECB + hand chaining.", TECH, "OpenSSL mode behaviour is modelled (Cipher/Cipher.v), not verified."),
 "C20": ("Theorems: adjust_key_parity (same length, every byte odd parity, only LSB may change, idempotent) for every key; apply_key_variant exact, involutive, "
         "rejects outside 8/16/24 x 0..31; xor through host-order integers = bytewise xor with surplus mask ignored; odd_parity = bit-count parity for every v < 2^32 "
         "(test-bit algebra + 16-entry table). Correspondence: all 256 byte values at key positions, all 32 variants, xor lengths 0..64, 16-bit and random 32-bit parity.", TECH,
         "tools.xor equivalence assumes a little-endian host (asserted at run time)."),
}

CLAIMS.update({
 "C04": ("Theorems: for every PIN of 4..12 digits, admissible PAN and EVERY value of the random fill (choices in A..F^10, any 8-byte tail), decode(encode(pin)) = pin "
         "for formats 0, 2, 3, the format 4 PIN field, and the format 4 enciphered block under every lawful 16-byte-block cipher and key. Correspondence: impl encode->decode, "
         "and the model given the fill recovered from the impl output must reproduce the impl block byte for byte.", TECH, ""),
 "C05": ("Theorems: nibble view of every encoder's output = the from-the-standard construction of Spec/ISO9564.v (formats 0 and 2 bit for bit; format 3 prefix exact and fill "
         "nibbles in 10..15; format 4 PIN field, PAN field incl. short/long PAN cases; enciphered block = E(E(PIN field) xor PAN field)). Correspondence: every output nibble of impl and "
         "model against an independent nibble construction over all PIN x PAN lengths.", TECH, "Spec files are my transcription of ISO 9564-1."),
 "C06": ("Theorems: each decoder returns Ok p IFF the unmasked block satisfies the standard's well-formedness predicate with PIN p, otherwise ValueError (never a crash); accepted PINs are 4..12 "
         "decimal digits; formats are mutually exclusive; format 0 PAN binding proved; format 4 binding proved at the level of the deciphered PIN field (partial: a cipher coincidence cannot be "
         "excluded for an abstract permutation); format 3 binding is refuted by a witness and not part of the property. Correspondence: every control x length nibble, 0-2 class deviations, random blocks, PAN pairs.", TECH,
         "Format 4 PAN binding is partial (2^-64-type coincidence not excluded)."),
 "C12": ("Theorems: every successful wrap output is printable ASCII, <= 9999, its 4-digit length field equals its length, block-multiple total and header section, block count field = blocks "
         "+ at most one trailing pad block <= 99, remainder = upper-case hex of block-multiple key data + MAC of the version's size; pad-block shape incl. the full-size case; header string / dump "
         "re-load to an equal header from ANY prior state (premise: total <= 9999, boundary witness kept); limits iff. The whole MutableMapping API of Blocks (update, setdefault, pop, popitem, clear ...) is modelled "
         "(Model/BlocksApi.v): every object reachable through any API sequence satisfies the invariant the framing theorems start from, with exact error characterisations. Correspondence incl. every residue, "
         "251/252, 97..100 blocks, near 9999, hostile ids through every entry point, random API sequences against the extracted api_run.", TECH,
         "Caller blocks must not use a pad id (pb/Pb/pB/PB): documented premise with a necessity witness."),
 "C13": ("Theorems: exact length formula of a successful wrap in terms of the masked length only; equal lengths for all keys within the effective mask (24/24/32 for T/D/A, else the given mask); "
         "encrypted section in (2+m, 2+m+block]; number of random bytes drawn. Correspondence: versions x algorithms x masks -8..64 x key lengths 0..64 on the implementation, sample re-run on the model.", TECH, ""),
 "C17": ("Theorems over the object model step/run: the outcome of load / unwrap and, on success, the whole resulting header are independent of the prior header state, for every reachable state "
         "(fold_left over any op list); wrap and str leave the state unchanged and depend only on kbpk + current header. Correspondence: op sequences (all pairs, sampled triples/quadruples, longer random) on one "
         "reused implementation object vs the model fold, plus reused-vs-fresh on the implementation.", TECH, ""),
 "C18": ("(1) Generic Coq theorem: processes that never write the shared store do not interfere under ANY interleaving and each is where it would be alone. (2) Purity policy over write-effect summaries "
         "REGENERATED from the current psec source by a fail-closed ast translator on every run (Gen/Effects.v), re-checked by vm_compute (C18_current_tree): no function writes module/class state or a parameter, "
         "self is written only by the declared mutators (not by wrap/dump/str), no unknown calls/decorators/globals. (3) C18_closure_write_free lifts the policy to whole call closures (dispatch tables resolved), "
         "side condition and the saturated, fully resolved, mutator-free closure of the API evaluated on the regenerated summaries. Standing support: threaded shuffled workload of thousands of items vs single-threaded reference and the model.",
         "Coq proof (generic interleaving theorem) + regenerated-from-source effect summaries checked by vm_compute + model/implementation correspondence and threaded workload",
         "Partial: the step from the policy to 'write-free process' is the translator's abstraction (trusted); CPython/OpenSSL runtime behaviour under threads is observed, not proved."),
})

CLAIMS.update({
 "C01": ("Theorem C01_roundtrip: for every lawful cipher pair, version A-D, KBPK, header_ok header (any fields, reserved, any optional blocks other than a pad id), key, mask and tape: "
         "kb_wrap = Ok s -> unwrap kbpk s = Ok (h, key) - every field and the ordered block list; also through the object API from ANY prior header state, through header strings, and wrap leaves the "
         "state unchanged (C01_wrap_pure). KBPK-size and key-length side conditions are derived from success, not assumed. Correspondence: impl unwrap(wrap(x)) and header-unchanged over versions x KBPK "
         "sizes x layouts (251/252, 97-100 blocks, near 9999) x key lengths to 4900 x mask classes; model run with the recovered tape gives the same verdict and result.", TECH,
         "Premise header_ok excludes caller blocks whose id is a pad id (necessity witness C01_pb_premise_needed)."),
 "C02": ("Reduction, not a cryptographic proof: C02_accept_iff characterises exactly when unwrap returns a key - length field = true length, block multiple, MAC and key data well-formed hex of the right sizes, and "
         "tag = CMAC (B/D) / leftmost 4 bytes of CBC-MAC (A/C) under the KBAK derived from the WHOLE KBPK over the ENTIRE header text (length field, count, reserved, every optional block) followed by the whole key data, "
         "compared over the full MAC length; binding injectivity (partial); wrong length field / truncation rejected. Hence accepting a string that differs from every genuine block is a MAC forgery. "
         "A machine-checked witness (C02_not_structural) shows the claim cannot follow from cipher lawfulness alone. Correspondence: accept/reject verdict impl vs model vs an independent reference over the tamper space.", TECH,
         "Partial by nature: unforgeability of CMAC / CBC-MAC is assumed, not proved. bytes.fromhex skips white space in the binary section (boundary documented in DESIGN.md)."),
 "C03": ("Theorems, for every lawful cipher pair: psec's hand-built subkeys = SP 800-38B K1/K2; b/d_generate_mac = CMAC over header ++ key data; b_derive / d_derive = the TR-31 counter-mode KDF with the 2-key/3-key/AES-128/192/256 "
         "indicators (Spec/TR31.v); c_derive = variants 0x45/0x4D; A/C MAC = leftmost 4 bytes of CBC-MAC; forward: every wrap output is a legal Spec encoding that the Spec opens; reverse: EVERY legal Spec encoding "
         "(short/extended lengths with any length-of-length, any pad blocks, hex case, extra key-padding blocks incl. none) is unwrapped by the model to the same header and key. Spec validated inside Coq against RFC 4493 / "
         "SP 800-38B vectors and six third-party key blocks. Correspondence: psec<->independent Python reference (cryptography's CMAC) in both directions with randomised encoding freedoms; model text = impl text byte for byte.", TECH,
         "Spec/CMAC.v and Spec/TR31.v are my transcription of SP 800-38B and TR-31:2018."),
 "C14": ("Model theorems: for EVERY tape, format 3 fill = the used tape prefix (so in A-F, position by position) and tape -> block is injective on the used prefix; format 4 tail = tape verbatim, head independent of it; TR-31 "
         "clear key data = length ++ key ++ tape, wrap succeeds only for a tape of exactly pad_len + extra bytes, tape -> key block injective for A/C, B and D. What no model can say - that the tape is drawn afresh from the OS "
         "generator - is observed at run time in a separate interpreter with os.urandom / random._urandom wrapped before psec is imported: OS bytes drawn >= fill, random state untouched, alphabet, per-position frequencies "
         "within a Hoeffding bound (< 2^-60 false alarm), joint coverage of short fills, freshness across runs, random.seed(0), fork and concurrent wraps on one object. "
         "Model/Entropy.v models how secrets.choice consumes OS bytes; proved exactly uniform and independent per symbol (C14_choice_uniform); the monitor checks per call that fill = that function of the OS bytes drawn "
         "(format 3), tail / TR-31 padding = those bytes verbatim.",
         "Coq proof over the model with an explicit random tape + runtime entropy-provenance monitor + model/implementation correspondence (exists-tape)",
         "Partial: provenance/freshness of the entropy source is monitored, not proved; the OS generator itself is trusted."),
 "C15": ("Theorems for ALL strings (any code points), ALL KBPK byte strings, all keys/masks and every prior object state: header_load, unwrap, KeyBlock.unwrap, wrap with a header string and wrap with a Header object return Ok or "
         "HeaderError/KeyBlockError - never another exception (every partial Python primitive the code calls is modelled partial and shown guarded); invariants preserved by every operation; reachable-state form. Termination: all model "
         "functions are structural. The pinned pre-fix behaviour is refuted by a machine-checked witness (C15_legacy_refuted). Correspondence: bucket of impl vs model over grammar-aware hostile mutations, KBPK lengths 0..40, random Unicode; "
         "impl additionally run under a 5 s alarm.", TECH,
         "Genuine defect repaired in /repo by commit c05e172 (fix:), recorded as 'fixed:' in known_findings.txt. del blocks[id] raising KeyError is dict behaviour, outside the property."),
 "C16": ("Theorems accepts_exactly (dom_f args) (f args) for every public function outside tr31: inside the explicitly written documented domain (ASCII 0x30-0x39 digits, explicit lengths, one hex pad character, window inside the PAN, "
         "key/IV/data sizes) the result is Ok; outside it the result is exactly ValueError - never a crash, never a value - incl. for every draw of the random fill; decoders never crash on any input. Hostile-input Examples by vm_compute. "
         "Correspondence: every text parameter x lengths around each bound x hostile alphabet, byte parameters all lengths 0..40, verdict of impl and model vs independently written domain predicates.", TECH,
         "Negative Python ints for window/length arguments are outside the model's typed domain and unspecified by the property. Empty IBM 3624 window accepted at any offset (boundary reading)."),
})

checks = []
for p in props:
    pid = p["id"]
    if pid in CLAIMS:
        text, tech, note = CLAIMS[pid]
        checks.append({
            "property_id": pid,
            "quick_cmd": "./check %s --tier quick" % pid,
            "thorough_cmd": "./check %s --tier thorough" % pid,
            "evidence_file": "/verif/evidence/%s.json" % pid,
            "replay_cmd_template": "./check %s --replay {path}" % pid,
            "engine": "coq-model-correspondence",
            "level_claimed": {"category": "proof", "text": text, "design_ref": "DESIGN.md section 8, " + pid},
            "level_note": (note + " " if note else "") + COMMON_NOTE,
            "technique": tech,
        })
na = [{"property_id": p["id"], "reason": "check not built yet (work in progress: model exists, theorem/correspondence pending)"}
      for p in props if p["id"] not in CLAIMS]
m = {
 "version": 1,
 "setup_cmd": "./build.sh",
 "hooks": {"guard": "PSEC_VERIF", "enable": "no source hooks are needed: checks import psec from /repo's working tree (PYTHONPATH=/repo) and observe it from outside",
           "baseline_off_cmd": "cd /repo && /venv/bin/python -m pytest -ra -q -p no:cacheprovider --timeout=900 --continue-on-collection-errors",
           "source_commits": [], "add_only": True},
 "engines": [{"name": "coq-model-correspondence", "path": "/verif/check",
              "serves_properties": sorted(CLAIMS), "kind_free_text": "Coq 8.16.1 theorems over a hand-written Gallina model of psec (coq/), tied to /repo on every run by differential correspondence between the extracted model (ocaml/driver) and the real library (harness/)"}],
 "checks": checks,
 "not_applicable": na,
 "notes": "Two genuine defects were repaired in /repo with 'fix:' commits (C09 CVV second decimalisation pass, C15 pad-block ASCII validation); see known_findings.txt and DESIGN.md section 9.",
}
json.dump(m, open(os.path.join(V, "MANIFEST.json"), "w"), indent=1)
print("claimed:", sorted(CLAIMS))
