#!/venv/bin/python
"""tools/matrix.py: runs every registered quick check against every seeded change (each applied in its own
scratch worktree, selected with PSEC_VERIF_REPO; output redirected with VERIF_OUT) and writes seeded/MATRIX.json.
Self-test only: the recorded per-change result in seeded/<id>/meta.json comes from tools/eval_mutant.py, which
applies the change to /repo itself."""
import json, os, subprocess, sys, glob, concurrent.futures as cf
V = "/verif"
seeded = sorted(d for d in os.listdir(V + "/refactors") if os.path.isdir(V + "/refactors/" + d))
checks = ["C%02d" % i for i in range(1, 21)]
root = "/tmp/rx"
os.makedirs(root, exist_ok=True)
def sh(cmd, **kw):
    return subprocess.run(cmd, shell=True, capture_output=True, text=True, **kw)
for m in seeded:
    wt = "%s/%s" % (root, m)
    sh("git -C /repo worktree remove --force %s" % wt)
    r = sh("git -C /repo worktree add --detach %s HEAD && git -C %s apply %s/refactors/%s/patch.diff" % (wt, wt, V, m))
    assert r.returncode == 0, r.stderr
def run(m, c):
    env = dict(os.environ, PSEC_VERIF_REPO="%s/%s" % (root, m), VERIF_OUT="%s/out-%s" % (root, m), VERIF_COVERAGE="0", VERIF_JOBS="2")
    r = subprocess.run(["./check", c, "--tier", "quick"], cwd=V, env=env, capture_output=True, text=True, timeout=3000)
    line = [l for l in r.stdout.split("\n") if l.startswith(("VIOLATION", "OK"))]
    return m, c, r.returncode, (line[-1] if line else (r.stdout + r.stderr)[-200:])
REL = {"tools.py": checks, "des.py": checks, "aes.py": checks,
       "mac.py": ["C07", "C08", "C16", "C18", "C01", "C02", "C03", "C12", "C13", "C15", "C17"],
       "cvv.py": ["C09", "C16", "C18"], "pin.py": ["C10", "C11", "C16", "C18"],
       "pinblock.py": ["C04", "C05", "C06", "C14", "C16", "C18"],
       "tr31.py": ["C01", "C02", "C03", "C12", "C13", "C14", "C15", "C17", "C18"]}
def related(m):
    txt = open("%s/refactors/%s/patch.diff" % (V, m)).read()
    out = set()
    for f, cs in REL.items():
        if "psec/" + f in txt:
            out |= set(cs)
    return sorted(out)
res = {}
jobs = [(m, c) for m in seeded for c in checks if c != "C18"]
with cf.ThreadPoolExecutor(max_workers=10) as ex:
    for m, c, rc, line in ex.map(lambda mc: run(*mc), jobs):
        res.setdefault(m, {})[c] = {"exit": rc, "nofail": "no-failing-input-found" in line}
        print(m, c, rc, line[:110], flush=True)
for m in seeded:      # C18 regenerates coq/Gen/Effects.v: one at a time
    if False:
        continue
    _, c, rc, line = run(m, "C18")
    res[m]["C18"] = {"exit": rc, "nofail": "no-failing-input-found" in line}
    print(m, c, rc, line[:110], flush=True)
# restore the generated file for the real tree
sh("/venv/bin/python harness/effects.py /repo > coq/Gen/Effects.v && cd coq && coqc -R . Psec Gen/Effects.v && coqc -R . Psec Properties/C18.v", cwd=V)
for m in seeded:
    sh("git -C /repo worktree remove --force %s/%s" % (root, m))
sh("rm -rf /tmp/rx")
json.dump(res, open(V + "/refactors/RESULTS.json", "w"), indent=1, sort_keys=True)
