#!/venv/bin/python
"""tools/eval_mutant.py <PROP> <N> [--checks C01,C02 | --all]
Confirms a seeded change produced by an independent sub-agent (applies in a scratch
worktree, the 473 tests pass, the demonstration fails with it and passes without it),
stores it under seeded/<PROP>-<N>/ and runs the registered quick checks against /repo
with the change applied (git apply ... ; checks ; git checkout -- .)."""
import json, os, shutil, subprocess, sys, time

V = "/verif"
prop, n = sys.argv[1], sys.argv[2]
root = "/tmp/mut"
name = "%s-%s" % (prop, n)
for a in sys.argv:
    if a.startswith("--src="):
        root = a.split("=")[1]
    if a.startswith("--name="):
        name = a.split("=")[1]
src = "%s/%s/out" % (root, prop)
patch = os.path.join(src, "patch_%s.diff" % n)
demo = os.path.join(src, "demo_%s.py" % n)
meta = os.path.join(src, "meta_%s.txt" % n)
checks = [prop]
if "--all" in sys.argv:
    checks = [c["property_id"] for c in json.load(open(V + "/MANIFEST.json"))["checks"]]
for a in sys.argv:
    if a.startswith("--checks="):
        checks = a.split("=")[1].split(",")


def sh(cmd, cwd=None, env=None, timeout=1800):
    e = dict(os.environ)
    if env:
        e.update(env)
    r = subprocess.run(cmd, shell=True, cwd=cwd, env=e, capture_output=True, text=True, timeout=timeout)
    return r.returncode, (r.stdout + r.stderr)


wt = "/tmp/mutcheck-%s-%s" % (prop, n)
sh("git -C /repo worktree remove --force %s" % wt)
rc, out = sh("git -C /repo worktree add --detach %s HEAD" % wt)
assert rc == 0, out
res = {"property": prop, "n": n}
try:
    rc, out = sh("PYTHONPATH=%s /venv/bin/python -W ignore %s" % (wt, demo), cwd=wt)
    res["demo_without_change"] = rc
    rc, out = sh("git apply %s" % patch, cwd=wt)
    res["applies"] = rc == 0
    rc, out = sh("/venv/bin/python -m pytest -q -p no:cacheprovider 2>&1 | tail -3", cwd=wt)
    res["tests"] = out.strip().split("\n")[-1]
    rc, out = sh("PYTHONPATH=%s /venv/bin/python -W ignore %s" % (wt, demo), cwd=wt)
    res["demo_with_change"] = rc
    res["demo_output"] = out[-400:]
finally:
    sh("git -C /repo worktree remove --force %s" % wt)
ok = res.get("applies") and "473 passed" in res.get("tests", "") and res["demo_without_change"] == 0 and res["demo_with_change"] != 0
res["confirmed"] = bool(ok)
if ok:
    d = os.path.join(V, "seeded", name)
    os.makedirs(d, exist_ok=True)
    shutil.copy(patch, os.path.join(d, "patch.diff"))
    shutil.copy(demo, os.path.join(d, "demo.py"))
    # run the checks against /repo with the change applied
    rc, out = sh("git -C /repo status --porcelain")
    assert out.strip() == "", "/repo not clean: " + out
    rc, out = sh("git -C /repo apply %s" % patch)
    assert rc == 0, out
    results = {}
    try:
        for c in checks:
            t0 = time.time()
            rc, out = sh("./check %s --tier quick" % c, cwd=V, env={"VERIF_OUT": "/tmp/eval_mutant_out"})   # never overwrite the committed evidence
            line = [l for l in out.split("\n") if l.startswith(("VIOLATION", "OK", "KNOWN"))]
            results[c] = {"exit": rc, "line": line[-1] if line else out[-300:], "wall": round(time.time() - t0, 1)}
            if rc != 0 and "replay=" in results[c]["line"]:
                rp = results[c]["line"].split("replay=")[1].split()[0]
                try:
                    r = json.load(open(rp))
                    f = (r.get("failures") or [{}])[0]
                    results[c]["replay_kind"] = r.get("kind")
                    results[c]["first_failure"] = {k: str(v)[:300] for k, v in f.items()}
                    results[c]["no_longer_checks"] = r.get("no_longer_checks")
                except Exception as e:
                    results[c]["replay_error"] = repr(e)
    finally:
        sh("git -C /repo checkout -- .")
        # restore generated artefacts that depend on the source
        sh("/venv/bin/python harness/effects.py /repo > coq/Gen/Effects.v && cd coq && coqc -R . Psec Gen/Effects.v && coqc -R . Psec Properties/C18.v", cwd=V)
    res["checks"] = results
    res["detected_by"] = [c for c, r in results.items() if r["exit"] != 0]
    m = {"breaks_property": prop, "what_it_needs_to_manifest": open(meta).read() if os.path.exists(meta) else "",
         "confirmed": {"applies_to_pinned_commit": True, "existing_tests": res["tests"], "demo_exit_without_change": 0,
                       "demo_exit_with_change": res["demo_with_change"]},
         "ran": ["git -C /repo apply seeded/%s/patch.diff" % name] + ["./check %s --tier quick" % c for c in checks] + ["git -C /repo checkout -- ."],
         "check_results": results, "detected_by": res["detected_by"]}
    json.dump(m, open(os.path.join(d, "meta.json"), "w"), indent=1)
print(json.dumps(res, indent=1))
