#!/venv/bin/python
"""Re-runs only the C18 column of seeded/MATRIX.json (one at a time: C18 regenerates coq/Gen/Effects.v)."""
import json, os, subprocess
V = "/verif"
m = json.load(open(V + "/seeded/MATRIX.json"))
root = "/tmp/mx18"
os.makedirs(root, exist_ok=True)
def sh(cmd, **kw):
    return subprocess.run(cmd, shell=True, capture_output=True, text=True, **kw)
for name in sorted(m):
    wt = "%s/%s" % (root, name)
    sh("git -C /repo worktree remove --force %s" % wt)
    r = sh("git -C /repo worktree add --detach %s HEAD && git -C %s apply %s/seeded/%s/patch.diff" % (wt, wt, V, name))
    assert r.returncode == 0, r.stderr
    env = dict(os.environ, PSEC_VERIF_REPO=wt, VERIF_OUT="%s/out-%s" % (root, name), VERIF_COVERAGE="0")
    r = subprocess.run(["./check", "C18", "--tier", "quick"], cwd=V, env=env, capture_output=True, text=True, timeout=3000)
    line = [l for l in r.stdout.split("\n") if l.startswith(("VIOLATION", "OK"))]
    line = line[-1] if line else (r.stdout + r.stderr)[-200:]
    m[name]["C18"] = {"exit": r.returncode, "nofail": "no-failing-input-found" in line}
    print(name, r.returncode, line[:120], flush=True)
    sh("git -C /repo worktree remove --force %s" % wt)
sh("rm -rf " + root)
json.dump(m, open(V + "/seeded/MATRIX.json", "w"), indent=1, sort_keys=True)
