"""Extreme values of the random fill.  Runs in its own interpreter: os.urandom / random._urandom are replaced
BEFORE psec is imported by a biased stream (a quarter of the bytes 0xFF, a quarter 0x00, the rest pseudo-random, with
runs), so that the fill takes the boundary values a real generator produces once in thousands of calls.  Round trips
and layouts must hold for EVERY value of the fill.  Prints one JSON object {"roundtrip": [...], "layout": [...], "calls": n}."""
import json
import os
import random as _r
import sys

seed, N = int(sys.argv[1]), int(sys.argv[2])
_gen = _r.Random("biased-%d" % seed)


def _biased(n):
    out = bytearray()
    while len(out) < n:
        k = _gen.random()
        run = _gen.choice((1, 1, 2, 2, 3, 4))
        if k < 0.25:
            out += b"\xff" * run
        elif k < 0.5:
            out += b"\x00" * run
        else:
            out += _gen.randbytes(run)
    return bytes(out[:n])


os.urandom = _biased
import random  # noqa: E402

random._urandom = _biased
VERIF = os.path.dirname(os.path.dirname(os.path.abspath(__file__)))
sys.path.insert(0, VERIF)
sys.path.insert(0, os.environ.get("PSEC_VERIF_REPO", "/repo"))
import warnings  # noqa: E402

warnings.simplefilter("ignore")
from harness import oracles as o  # noqa: E402
from psec import pinblock, tr31  # noqa: E402

rt, lay = [], []
calls = 0
DIG = "0123456789"


def digits(n):
    return "".join(_gen.choice(DIG) for _ in range(n))


def attempt(kind, what, f):
    try:
        return f()
    except Exception as e:  # noqa: BLE001
        (rt if kind == "rt" else lay).append({"what": what + ": " + type(e).__name__ + ": " + str(e)[:80]})
        return None


for i in range(N):
    L = 4 + i % 9
    pin, pan = digits(L), digits(_gen.randrange(13, 20))
    calls += 1
    b3 = attempt("rt", "format 3 encode (pin %s pan %s)" % (pin, pan), lambda: pinblock.encode_pinblock_iso_3(pin, pan))
    if b3 is not None:
        nib = o.xor_nibbles(o.nibbles(b3), o.pan_block(pan)) if len(b3) == 8 else None
        if nib is None or nib[:2 + L] != [3, L] + [int(c) for c in pin] or any(x < 10 for x in nib[2 + L:]):
            lay.append({"what": "format 3 layout under extreme fill: pin %s pan %s block %s" % (pin, pan, b3.hex())})
        r = attempt("rt", "format 3 decode", lambda: pinblock.decode_pinblock_iso_3(b3, pan))
        if r is not None and r != pin:
            rt.append({"what": "format 3 round trip under extreme fill: pin %s pan %s block %s -> %r" % (pin, pan, b3.hex(), r)})
    f4 = attempt("rt", "format 4 field encode", lambda: pinblock.encode_pin_field_iso_4(pin))
    if f4 is not None:
        if len(f4) != 16 or o.nibbles(f4)[:16] != o.pin_field4_nibbles(pin, b"")[:16]:
            lay.append({"what": "format 4 PIN field layout under extreme fill: pin %s field %s" % (pin, f4.hex())})
        r = attempt("rt", "format 4 field decode", lambda: pinblock.decode_pin_field_iso_4(f4))
        if r is not None and r != pin:
            rt.append({"what": "format 4 field round trip under extreme fill: pin %s field %s -> %r" % (pin, f4.hex(), r)})
    if i % 4 == 0:
        key, pan4 = _gen.randbytes(_gen.choice((16, 24, 32))), digits(_gen.randrange(1, 20))
        e4 = attempt("rt", "format 4 encipher", lambda: pinblock.encipher_pinblock_iso_4(key, pin, pan4))
        if e4 is not None:
            r = attempt("rt", "format 4 decipher", lambda: pinblock.decipher_pinblock_iso_4(key, e4, pan4))
            if r is not None and r != pin:
                rt.append({"what": "format 4 block round trip under extreme fill: key %s pin %s pan %s -> %r" % (key.hex(), pin, pan4, r)})
    if i % 8 == 0:
        v = "ABCD"[(i // 8) % 4]
        kbpk, k = _gen.randbytes(16), _gen.randbytes(_gen.choice((8, 16, 24, 6, 14)))
        mask = _gen.choice((None, 22, 30, 40))
        hdr = v + "0000P0" + _gen.choice("TAH") + "E00N0000"
        kb = attempt("rt", "TR-31 wrap", lambda: tr31.wrap(kbpk, hdr, k, mask))
        if kb is not None:
            r = attempt("rt", "TR-31 unwrap", lambda: tr31.unwrap(kbpk, kb)[1])
            if r is not None and r != k:
                rt.append({"what": "TR-31 round trip under extreme padding: %s" % kb[:60]})
print(json.dumps({"roundtrip": rt[:30], "layout": lay[:30], "calls": calls}))
