"""C03 - TR-31 key blocks interoperate with an independent implementation of the spec."""
from harness import core, oracles as o, framework as fw
from harness.props import tr31_common as t
from psec import tr31


def fields_of(h):
    return {"version_id": h.version_id, "key_usage": h.key_usage, "algorithm": h.algorithm, "mode_of_use": h.mode_of_use,
            "version_num": h.version_num, "exportability": h.exportability, "reserved": h.reserved}


def run(ctx):
    rng = ctx.rng
    viol, diffs, dist, samples = [], [], {}, []
    seen = set()
    cases = []
    for v in "ABCD":
        for ks in t.KBPK_SIZES[v]:
            for _ in range(ctx.n(6, 40)):
                c = t.gen_case(rng, version=v, profile=rng.choice(["none", "few", "few", "boundary"]))
                from harness import gens
                c["kbpk"] = gens.key(rng, ks)
                if ks == 24 and rng.random() < 0.4:
                    c["kbpk"] = c["kbpk"][:16] + c["kbpk"][:8]      # K1 K2 K1
                cases.append(c)
    # every key length 0..9 bytes (bit lengths 0..72: a length field of 16, 24 or 32 is a 2-, 3- or 4-byte key, not a byte count)
    for v in "ABCD":
        for kl in range(0, 10):
            for mask in (None, kl):
                c = t.gen_case(rng, version=v, profile="none", keylen=kl, mask=mask, algorithm=rng.choice("TAH"))
                cases.append(c)
    # 2 + key length a whole number of cipher blocks (6 / 14 / 22 / 30 / 46 bytes), unmasked: the pad is then a whole block
    for v in "ABCD":
        for kl in (6, 14, 22, 30, 46, 62):
            for alg, mask in (("H", None), ("T", kl), ("A", 0), ("R", kl - 1)):
                cases.append(t.gen_case(rng, version=v, profile=rng.choice(["none", "few"]), keylen=kl, mask=mask, algorithm=alg))
    # KBPKs at the msb corner of CMAC subkey generation (KBPK itself and derived KBAK; L and K1)
    for v, kbpk, label in t.cmac_boundary_kbpks(rng):
        c = t.gen_case(rng, version=v, profile=rng.choice(["none", "few"]))
        c["kbpk"] = kbpk
        cases.append(c)
        dist["cmac-corner KBPK"] = dist.get("cmac-corner KBPK", 0) + 1
    evals = 0
    fwd = []
    # ---- direction 1: psec -> reference
    usable = []
    for c in cases:
        inp = {"version": c["version"], "kbpk": c["kbpk"].hex(), "hdr16": c["hdr16"], "blocks": [[b[0], len(b[1])] for b in c["blocks"]],
               "key": c["key"].hex(), "mask": c["mask"]}
        try:
            h = t.impl_header(c)
        except Exception as e:  # noqa: BLE001
            viol.append({"what": "psec refuses a valid header (alphanumeric fields and ids, printable ASCII block data)",
                         "input": dict(inp, blocks=[[b[0], b[1][:120]] for b in c["blocks"]]), "expected": "OK", "observed": repr(e)[:160]})
            continue
        usable.append(c)
        try:
            kb = tr31.wrap(c["kbpk"], h, c["key"], c["mask"])
        except Exception as e:  # noqa: BLE001
            viol.append({"what": "wrap failed on a valid input", "input": inp, "expected": "OK", "observed": repr(e)[:120]})
            continue
        evals += 1
        k = "%s/%d:psec->ref" % (c["version"], len(c["kbpk"]))
        dist[k] = dist.get(k, 0) + 1
        seen.add((c["version"], len(c["kbpk"]), len(c["key"]), len(c["blocks"])))
        try:
            f, blks, key = o.tr31_unwrap(c["kbpk"], kb)
            ok = key == c["key"] and f == fields_of(h) and blks == list(h.blocks.items())
        except Exception as e:  # noqa: BLE001
            ok, key = False, repr(e)
        if not ok:
            viol.append({"what": "independent TR-31 implementation cannot open psec's key block / recovers something else",
                         "input": inp, "expected": [c["key"].hex()], "observed": [str(key)[:80], kb[:60]]})
        fwd.append((c, kb))
    # model must reproduce the impl text byte for byte (tape recovered from the impl block)
    ops_cases = [(c["kbpk"], t.setup_ops(c) + [("W", c["key"], c["mask"])]) for c, _ in fwd]
    fake = [("", ["nat:16"] + ["none"] * len(c["blocks"]) + ["str:" + core.show(kb)]) for c, kb in fwd]
    mops = core.with_tapes(ops_cases, fake)
    mres = [core.parse_model_run(l) for l in core.run_model([core.model_run_line(k, ops) for k, ops in mops])]
    for (c, kb), (mh, mouts) in zip(fwd, mres):
        if mouts[-1:] != ["str:" + core.show(kb)]:
            diffs.append({"direction": "wrap", "hdr16": c["hdr16"], "kbpk_len": len(c["kbpk"]), "key_len": len(c["key"]),
                          "impl": kb[:100], "model": (core.unshow_str(mouts[-1][4:])[:100] if mouts[-1].startswith("str:") else mouts[-1])})
        elif len(samples) < 3:
            samples.append({"direction": "psec->reference and model==impl text", "key_block": kb[:80] + "..."})
    # ---- direction 2: reference (varying every encoding freedom) -> psec and -> model
    rev = []
    for c in usable:
        v = c["version"]
        bs = t.BS[v]
        h = t.impl_header(c)
        f = fields_of(h)
        extra_blocks = rng.choice([0, 0, 1, 2])
        padlen = (-(2 + len(c["key"]))) % bs + bs * extra_blocks      # zero-length padding when already aligned
        choice = {"ext_all": rng.random() < 0.4, "lower": rng.random() < 0.4, "pb_size": rng.choice([None, None, 1, 2]),
                  "pb_ext": rng.random() < 0.3, "ll": rng.choice([2, 2, 1, 3]),
                  "pb_fill": rng.choice(["0", "0", "F", "x", " ", "~"]), "pb_pos": rng.choice(["last", "last", "first", "middle"])}
        try:
            kb = o.tr31_wrap(c["kbpk"], f, list(h.blocks.items()), c["key"], rng.randbytes(padlen), **choice)
        except AssertionError:
            continue
        if len(kb) > 9999:
            continue
        evals += 1
        k = "%s/%d:ref->psec" % (v, len(c["kbpk"]))
        dist[k] = dist.get(k, 0) + 1
        u = t.impl_unwrap(c["kbpk"], kb)
        want = ("OK", core.show_header(h), core.show(c["key"]))
        if u != want:
            viol.append({"what": "psec cannot unwrap a valid key block of the independent implementation",
                         "input": {"version": v, "kbpk": c["kbpk"].hex(), "key_block": kb, "choices": choice, "pad_len": padlen},
                         "expected": [x[:80] for x in want], "observed": [str(x)[:80] for x in u]})
        rev.append((c, kb, want))
    for (c, kb, want), mu in zip(rev, t.model_unwrap([(c["kbpk"], kb) for c, kb, _ in rev])):
        if mu != want:
            diffs.append({"direction": "unwrap of reference block", "key_block": kb[:100], "reference": [x[:60] for x in want],
                          "model": [str(x)[:60] for x in mu]})
        elif len(samples) < 6:
            samples.append({"direction": "reference->psec and ->model", "key_block": kb[:80] + "..."})
    # ---- one reused KeyBlock whose header version is switched between wraps (a 16/24-byte KBPK serves A, B, C and D):
    #      every block it emits must be opened by the independent reference, and blocks of the reference by it
    for ks in (16, 24):
        for order in ("BDCB", "DBAD", "ABD", "DCB"):
            kbpk = rng.randbytes(ks)
            kb = tr31.KeyBlock(kbpk)
            key = rng.randbytes(16)
            for v in order:
                evals += 1
                try:
                    kb.header.load(v + "0000P0TE00N0000")
                    s_ = kb.wrap(key)
                    f, blks, k2 = o.tr31_unwrap(kbpk, s_)
                    ok = k2 == key
                except Exception as e:  # noqa: BLE001
                    ok, s_ = False, repr(e)
                if not ok:
                    viol.append({"what": "a reused KeyBlock (version switched to %s in sequence %s) emitted a block the independent implementation cannot open" % (v, order),
                                 "input": {"kbpk": kbpk.hex(), "sequence": order, "key": key.hex()}, "expected": "opens to the key", "observed": str(s_)[:100]})
                ref = o.tr31_wrap(kbpk, {"version_id": v, "key_usage": "P0", "algorithm": "T", "mode_of_use": "E", "version_num": "00",
                                         "exportability": "N", "reserved": "00"}, [], key, rng.randbytes((-(2 + 16)) % o.TR31_BS[v] or o.TR31_BS[v]))
                try:
                    got = kb.unwrap(ref)
                except Exception as e:  # noqa: BLE001
                    got = repr(e)
                if got != key:
                    viol.append({"what": "a reused KeyBlock (after other versions) cannot unwrap a valid reference block of version " + v,
                                 "input": {"kbpk": kbpk.hex(), "sequence": order, "key_block": ref}, "expected": key.hex(), "observed": str(got)[:100]})
    # ---- the reference itself: CMAC of `cryptography` vs the published RFC 4493 vector (oracle sanity)
    k = bytes.fromhex("2b7e151628aed2a6abf7158809cf4f3c")
    if o.cmac("aes", k, b"").hex() != "bb1d6929e95937287fa37d129b756746":
        diffs.append({"direction": "oracle", "what": "cryptography CMAC does not reproduce RFC 4493 example 1"})
    return {"evaluations": evals, "distinct_nontrivial": len(seen), "samples": samples, "distribution": dist,
            "diffs": diffs, "violations": viol,
            "rule": "all versions x every admissible KBPK size (incl. single-length DES for A/C, AES-192) x key lengths x headers with "
                    "optional blocks; psec->independent reference (harness/oracles.py, CMAC from `cryptography`) must recover key "
                    "and header; reference->psec with randomised encoding freedoms (0..2 extra key-padding blocks incl. zero-length "
                    "padding, all blocks in extended-length form, foreign pad-block sizes, lower-case hex); the model must emit the "
                    "impl's text byte for byte (recovered tape) and open the reference blocks; distinct_nontrivial = distinct "
                    "(version, kbpk size, key length, #blocks)"}
