"""C20 - key parity, key variants and bit helpers are exact."""
from harness import core, framework as fw


def popcount(v):
    return bin(v).count("1")


def check_impl(fn, args, out):
    if fn == "adjust_key_parity":
        (k,) = args
        if out[0] != "OK":
            return {"what": "adjust_key_parity failed", "expected": "OK", "observed": list(out)}
        o = core.unshow_bytes(out[1])
        if len(o) != len(k) or any(popcount(b) % 2 == 0 or (a ^ b) > 1 for a, b in zip(k, o)):
            return {"what": "parity adjustment not exact", "expected": "odd parity, only LSB changed", "observed": out[1]}
    elif fn == "apply_key_variant":
        k, v = args
        dom = len(k) in (8, 16, 24) and 0 <= v <= 31
        if not dom:
            if out != ("ERR", "ValueError"):
                return {"what": "apply_key_variant outside its domain", "expected": "ValueError", "observed": list(out)}
            return None
        exp = bytes(b ^ (8 * v if i % 8 == 0 else 0) for i, b in enumerate(k))
        if out != ("OK", core.show(exp)):
            return {"what": "variant not exact", "expected": core.show(exp), "observed": list(out)}
    elif fn == "xor":
        d, m = args
        exp = bytes(b ^ (m[i] if i < len(m) else 0) for i, b in enumerate(d))
        if out != ("OK", core.show(exp)):
            return {"what": "xor not bytewise", "expected": core.show(exp), "observed": list(out)}
    elif fn == "odd_parity":
        (v,) = args
        if out != ("OK", str(popcount(v) % 2)):
            return {"what": "odd_parity wrong", "expected": str(popcount(v) % 2), "observed": list(out)}
    return None


def run(ctx):
    rng = ctx.rng
    cases = []
    # every byte value at every position of 8/16/24-byte keys
    for n in (8, 16, 24):
        base = rng.randbytes(n)
        for pos in range(n):
            vals = range(256) if (ctx.thorough or pos in (0, 7, 8, 15, 16, n - 1)) else rng.sample(range(256), 24)
            for b in vals:
                k = base[:pos] + bytes([b]) + base[pos + 1:]
                cases.append(("adjust_key_parity", (k,)))
    for n in (0, 1, 7, 9, 32, 40):
        cases.append(("adjust_key_parity", (rng.randbytes(n),)))
    # all 32 variants x 3 sizes, plus out-of-domain
    for n in (8, 16, 24):
        for v in range(-2, 35):
            cases.append(("apply_key_variant", (rng.randbytes(n), v)))
    for n in (0, 7, 9, 15, 17, 23, 25, 32):
        cases.append(("apply_key_variant", (rng.randbytes(n), rng.randrange(0, 32))))
    # real DES keys: every byte already has odd parity (and the all-even counterpart), structured and text-like keys
    from harness import gens
    for n in (8, 16, 24):
        odd = bytes(b if bin(b).count("1") % 2 else b ^ 1 for b in rng.randbytes(n))
        even = bytes(b ^ 1 for b in odd)
        for k in (odd, even, gens.key(rng, n), gens.text_like_bytes(rng, n), bytes(n), b"\xff" * n, b"\x01" * n):
            for v in (list(range(0, 32)) if k in (odd, even) else (1, 2, 7, 8, 16, 31)):
                cases.append(("apply_key_variant", (k, v)))
            cases.append(("adjust_key_parity", (k,)))
    # xor over lengths 0..64 incl. unequal lengths
    for dl in range(0, 65 if ctx.thorough else 34):
        for ml in sorted({0, 1, dl // 2, max(0, dl - 1), dl, dl + 1, dl + 7}):
            cases.append(("xor", (rng.randbytes(dl), rng.randbytes(ml))))
    for dl in (2, 3, 5, 8, 9, 16, 24):
        for ml in range(1, dl + 2):
            body = rng.randbytes(max(0, ml - 1))
            for mask in (b"\x00" + body, body + b"\x00", bytes(ml), b"\x00" * (ml - 1) + b"\x01", b"\x80" + body, body + b"\x80", b"\xff" * ml):
                cases.append(("xor", (rng.randbytes(dl), mask[:ml])))
                cases.append(("xor", (gens.special_bytes(rng, dl), mask[:ml])))
    # data beyond any internal chunk size with short masks (the mask covers a prefix only)
    for dl in (4096, 4097):
        for ml in (1, 5, dl - 1, dl):
            cases.append(("xor", (rng.randbytes(dl), rng.randbytes(ml))))
    # parity helper: all 16-bit values in thorough, sampled otherwise; sampled 32-bit
    vals = range(1 << 16) if ctx.thorough else list(range(0, 1 << 16, 97)) + list(range(512))
    for v in vals:
        cases.append(("odd_parity", (v,)))
    for _ in range(ctx.n(600, 6000)):
        cases.append(("odd_parity", (rng.getrandbits(32),)))
    for v in (0, 1, 0xFFFFFFFF, 0x80000000, 0x7FFFFFFF, 0xFFFF0000, 0x0000FFFF):
        cases.append(("odd_parity", (v,)))
    for k in range(0, 33):      # every power of two and its neighbours, every all-ones prefix: the boundaries of each fold
        for v in {(1 << k) - 1, 1 << k, (1 << k) + 1, ((1 << k) | 1), (0xFFFFFFFF >> k), (0xFFFFFFFF << k) & 0xFFFFFFFF}:
            if 0 <= v < (1 << 32):
                cases.append(("odd_parity", (v,)))
    cases = fw.with_history(rng, cases, gens.variants_generic(rng), fraction=0.02, limit=40)
    _res = fw.call_result(
        cases, check_impl=check_impl, nontrivial=lambda fn, a, o: o[0] == "OK",
        rule="all 256 byte values at key positions of 8/16/24-byte keys (every position in thorough), all 32 variants "
             "x 3 sizes + out-of-domain sizes/variants, xor over lengths 0..64 with unequal masks, odd_parity over "
             "16-bit values (all in thorough) and random 32-bit values; non-trivial = distinct successful calls")
    fw.inplace_history(_res, rng, [c for c in cases if core.impl_call(c[0], c[1])[0] == "OK"][:300], check_impl)
    return _res
