"""The whole MutableMapping API of psec.tr31.Blocks against Model/BlocksApi.v (api_run through the extracted driver):
random operation sequences - valid and hostile ids / data through every entry point - on ONE real Blocks object,
outcome by outcome and in the final ordered contents."""
from harness import core
from psec import tr31

IDS_OK = ["KS", "T1", "ab", "a7", "A7", "00", "zZ", "PB", "pb"]
IDS_BAD = ["KSN", "T", "", "**", "K_", "é1", "a b", "ＡＢ", "K٠", "K\n", "\nK"]
DATA_OK = ["", "1", "hello world", " lead", "trail ", "~}|{", "0016", "A" * 300]
DATA_BAD = ["\x7f", "caf\xe9", "tab\t", "\n", "\x00", " ", "abc\n", "abc\r", "\nabc"]


def gen_ops(rng, n):
    ops = []
    for _ in range(n):
        k = rng.randrange(12)
        bid = rng.choice(IDS_OK) if rng.random() < 0.8 else rng.choice(IDS_BAD)
        data = rng.choice(DATA_OK) if rng.random() < 0.8 else rng.choice(DATA_BAD)
        if k <= 2:
            ops.append(("S", bid, data))
        elif k == 3:
            pairs = []
            for _ in range(rng.randrange(0, 5)):
                pairs.append((rng.choice(IDS_OK) if rng.random() < 0.85 else rng.choice(IDS_BAD),
                              rng.choice(DATA_OK) if rng.random() < 0.85 else rng.choice(DATA_BAD)))
            style = rng.choice(["pairs", "dict", "kwargs"])
            if style != "pairs":
                pairs = list(dict(pairs).items())        # a mapping argument has unique keys (first position, last value)
            ops.append(("U", pairs, style))
        elif k == 4:
            ops.append(("F", bid, data))
        elif k == 5:
            ops.append(("D", bid))
        elif k == 6:
            ops.append(("P", bid))
        elif k == 7:
            ops.append(("I",))
        elif k == 8:
            ops.append(("C",) if rng.random() < 0.3 else ("N",))
        elif k == 9:
            ops.append(("G", bid))
        elif k == 10:
            ops.append(("K", bid))
        else:
            ops.append(("N",))
    return ops


def show_blocks(items):
    return "/".join(core.show(k) + ":" + core.show(v) for k, v in items) or "-"


def impl_run(ops):
    b = tr31.Blocks()
    outs = []
    for op in ops:
        try:
            k = op[0]
            if k == "S":
                b[op[1]] = op[2]
                outs.append("none")
            elif k == "U":
                if op[2] == "pairs":
                    r = b.update(op[1])
                elif op[2] == "dict":
                    r = b.update(dict(op[1]))
                else:
                    r = b.update(**dict(op[1]))
                outs.append("none" if r is None else "other:" + repr(r)[:30])
            elif k == "F":
                outs.append("str:" + core.show(b.setdefault(op[1], op[2])))
            elif k == "D":
                del b[op[1]]
                outs.append("none")
            elif k == "P":
                outs.append("str:" + core.show(b.pop(op[1])))
            elif k == "I":
                kk, vv = b.popitem()
                outs.append("pair:" + core.show(kk) + ";" + core.show(vv))
            elif k == "C":
                r = b.clear()
                outs.append("none" if r is None else "other:" + repr(r)[:30])
            elif k == "G":
                outs.append("str:" + core.show(b[op[1]]))
            elif k == "K":
                outs.append("bool:%d" % (1 if op[1] in b else 0))
            else:
                outs.append("nat:%d" % len(b))
        except tr31.HeaderError:
            outs.append("err:HeaderError")
        except KeyError:
            outs.append("err:Crash:KeyError")
        except Exception as e:  # noqa: BLE001
            outs.append("err:Other:" + type(e).__name__)
    return show_blocks(list(b.items())), outs


def token(op):
    k = op[0]
    if k in ("S", "F"):
        return k + "=" + core.show(op[1]) + ";" + core.show(op[2])
    if k == "U":
        return "U=" + "|".join(core.show(a) + ";" + core.show(b_) for a, b_ in op[1])
    if k in ("D", "P", "G", "K"):
        return k + "=" + core.show(op[1])
    return k


def model_run(seqs):
    lines = ["api " + " ".join(token(o_) for o_ in ops) for ops in seqs]
    out = []
    for l in core.run_model(lines):
        parts = l.split(" ")
        out.append((parts[1], parts[2:]) if parts[0] == "OK" else ("BAD", [l]))
    return out


def wf(items):
    from psec import tools
    ids = [k for k, _ in items]
    return len(set(ids)) == len(ids) and all(isinstance(k, str) and len(k) == 2 and tools.ascii_alphanumeric(k) and tools.ascii_printable(v)
                                             for k, v in items)


def check(ctx, viol, diffs, dist):
    rng = ctx.rng
    seqs = [gen_ops(rng, rng.randrange(1, 14)) for _ in range(ctx.n(400, 4000))]
    impl = [impl_run(ops) for ops in seqs]
    model = model_run(seqs)
    nd = 0
    for ops, (ib, iouts), (mb, mouts) in zip(seqs, impl, model):
        for o_ in iouts:
            kk = "api:" + o_.split(":")[0] + (":" + o_.split(":", 1)[1] if o_.startswith("err") else "")
            dist[kk] = dist.get(kk, 0) + 1
        if (ib, iouts) != (mb, mouts):
            nd += 1
            if nd <= 10:
                first = next((i for i, (x, y) in enumerate(zip(iouts, mouts)) if x != y), None)
                diffs.append({"mapping API sequence": [token(o_)[:60] for o_ in ops], "first_diff_step": first,
                              "impl": [ib[:100]] + [x[:40] for x in iouts], "model": [mb[:100]] + [x[:40] for x in mouts]})
        # the invariant the framing theorems rest on, evaluated on the implementation after every sequence
        b = tr31.Blocks()
        for op in ops:
            try:
                impl_run_one(b, op)
            except Exception:  # noqa: BLE001
                pass
            items = list(b.items())
            if not wf(items):
                viol.append({"what": "the mapping API let an invalid id / non-printable data / duplicate id into a Blocks object",
                             "input": {"ops": [token(o_)[:80] for o_ in ops]}, "expected": "2 alphanumeric characters, printable ASCII data, unique ids",
                             "observed": repr(items)[:200]})
                break
    return len(seqs)


def impl_run_one(b, op):
    k = op[0]
    if k == "S":
        b[op[1]] = op[2]
    elif k == "U":
        if op[2] == "pairs":
            b.update(op[1])
        elif op[2] == "dict":
            b.update(dict(op[1]))
        else:
            b.update(**dict(op[1]))
    elif k == "F":
        b.setdefault(op[1], op[2])
    elif k == "D":
        del b[op[1]]
    elif k == "P":
        b.pop(op[1])
    elif k == "I":
        b.popitem()
    elif k == "C":
        b.clear()
