"""C02 - TR-31 unwrap rejects every unauthentic or tampered key block."""
from harness import core, oracles as o, framework as fw
from harness.props import tr31_common as t
from psec import tr31

ALPHA_HDR = "09AZaz"
ALPHA_HEX = "0123456789ABCDEFabcdef"
NON_HEX = [" ", "+", "-", "\t", "\n", "_", "x", "G", "０", "１", "９", "٣", "\x00", "é"]


def canon(s, hl):
    return s[:hl] + s[hl:].upper()


def header_len(kb):
    h = tr31.Header()
    return h.load(kb)


def fix_len(s):
    return s[0] + "%04d" % len(s) + s[5:] if len(s) >= 5 and len(s) <= 9999 else s


def tampers(rng, g, hl, others, full):
    """yield (kind, string) around the genuine block g (header length hl)"""
    n = len(g)
    positions = range(n) if full else sorted(set(rng.sample(range(n), min(n, 40)) + list(range(0, 16)) + [hl - 1, hl, n - 1, n - 2, n - 16]))
    for p in positions:
        if p < 0 or p >= n:
            continue
        alpha = ALPHA_HEX if p >= hl else (t.PRINT if p >= 16 else ALPHA_HDR + "0123456789")
        for ch in (alpha if (full and p < hl) or p >= hl else rng.sample(alpha, min(len(alpha), 6))):
            if ch != g[p]:
                yield "subst@%d" % p, g[:p] + ch + g[p + 1:]
        if p >= hl:
            for ch in rng.sample(NON_HEX, 5) + ([chr(0xFF10 + int(g[p])), chr(0x660 + int(g[p]))] if g[p].isdigit() else []):
                yield "nonhex@%d" % p, g[:p] + ch + g[p + 1:]
            if g[p] == "0":
                for ch in (" ", "+", "\t", "\n"):
                    yield "nonhex0@%d" % p, g[:p] + ch + g[p + 1:]
        if p % 4 == 0:
            yield "del@%d" % p, g[:p] + g[p + 1:]
            yield "del+len@%d" % p, fix_len(g[:p] + g[p + 1:])
            ins = rng.choice(alpha)
            yield "ins@%d" % p, g[:p] + ins + g[p:]
            yield "ins+len@%d" % p, fix_len(g[:p] + ins + g[p:])
    bs = 16 if g[0] == "D" else 8
    for k in (1, bs, 2 * bs, 4 * bs):
        if n - k > 16:
            yield "trunc%d" % k, g[:n - k]
            yield "trunc%d+len" % k, fix_len(g[:n - k])
        yield "ext%d" % k, g + "0" * k
        yield "ext%d+len" % k, fix_len(g + "0" * k)
    # one character in front of / behind the genuine block, length field untouched and fixed up: every ASCII letter and digit
    # (transport wrappers such as a scheme tag), blanks and line ends
    for ch in t.ALNUM + " \t\r\n\x00,;:\"'":
        yield "prefix-ins", ch + g
        yield "suffix-ins", g + ch
    for ch in "RSUXK 0\n":
        yield "prefix-ins+len", fix_len(ch + g)
        yield "suffix-ins+len", fix_len(g + ch)
    yield "prefix-ins", g[0] + g
    yield "line-folded", g[:hl] + "\n" + g[hl:]
    yield "line-folded", "\n".join(g[i:i + 32] for i in range(0, n, 32))
    yield "surrounded-by-blanks", " " + g + " "
    yield "trailing-newline", g + "\r\n"
    # white space in the binary section (bytes.fromhex skips it)
    for p in (hl, hl + 2, n - 2):
        yield "space@%d" % p, g[:p] + " " * bs + g[p:]
        yield "space+len@%d" % p, fix_len(g[:p] + " " * bs + g[p:])
    # hex pairs of the MAC / of the key data replaced by white space (bytes.fromhex skips it)
    ml2 = 2 * t.MACLEN[g[0]]
    for k in range(2, ml2 + 1, 2):
        yield "mac-tail-blank%d" % k, g[:n - k] + " " * k
        yield "mac-head-blank%d" % k, g[:n - ml2] + " " * k + g[n - ml2 + k:]
    for ws in ("\t", "\n"):
        yield "mac-blank-ws", g[:n - ml2] + ws * ml2
    for k in (2, 2 * bs):
        yield "keydata-blank%d" % k, g[:hl] + " " * k + g[hl + k:]
        yield "keydata-tail-blank%d" % k, g[:n - ml2 - k] + " " * k + g[n - ml2:]
    # transplants from other genuine blocks under the same KBPK
    for og, ohl in others:
        ml2 = 2 * t.MACLEN[g[0]]
        yield "mac-transplant", g[:n - ml2] + og[len(og) - ml2:]
        yield "header-transplant", fix_len(og[:ohl] + g[hl:])
        yield "attr-transplant", g[0:5] + og[5:12] + g[12:]
        yield "blocks-transplant", fix_len(g[:12] + og[12:ohl] + g[hl:])
        yield "cipher-transplant", fix_len(g[:hl] + og[ohl:len(og) - ml2] + g[n - ml2:])
        yield "firstblock-transplant", g[:hl] + og[ohl:ohl + 2 * bs] + g[hl + 2 * bs:]
    for _ in range(6):
        s = list(g)
        for _ in range(rng.randrange(2, 6)):
            p = rng.randrange(n)
            s[p] = rng.choice(ALPHA_HEX if p >= hl else ALPHA_HDR)
        yield "multi-edit", "".join(s)


def run(ctx):
    rng = ctx.rng
    viol, diffs, dist, samples = [], [], {}, []
    items = []   # (kbpk, string, expect_accept, genuine, kind)
    seen = set()
    from harness import gens as G
    kbpk_list = []
    for v in "ABCD":
        for ks in t.KBPK_SIZES[v]:
            kbpk = G.key(rng, ks) if ctx.rng.random() < 0.5 else rng.randbytes(ks)
            if v == "B" and ks == 24 and rng.random() < 0.7:
                kbpk = kbpk[:16] + kbpk[:8]            # K1 K2 K1: Triple DES-equivalent to its 16-byte form, not TR-31-equivalent
            kbpk_list.append((v, ks, kbpk, False))
    # KBPKs at the msb corner of CMAC subkey generation: the authentic block must be accepted, every tamper rejected
    corner = t.cmac_boundary_kbpks(rng)
    for v, kbpk, label in (corner if ctx.thorough else rng.sample(corner, min(len(corner), 10))):
        kbpk_list.append((v, len(kbpk), kbpk, True))
    if True:
        for v, ks, kbpk, is_corner in kbpk_list:
            gens = []
            for prof in ("none", "few", "few"):
                c = t.gen_case(rng, version=v, profile=prof, keylen=rng.choice([8, 16, 24, 5]), mask=None)
                h = t.impl_header(c)
                g = tr31.wrap(kbpk, h, c["key"])
                gens.append((g, header_len(g), c["key"]))
            for gi, (g, hl, key) in enumerate(gens):
                others = [(x[0], x[1]) for j, x in enumerate(gens) if j != gi]
                full = ctx.thorough and gi == 0
                items.append((kbpk, g, True, g, "genuine", key))
                items.append((kbpk, g[:hl] + g[hl:].lower(), True, g, "lower-case hex", key))
                for kind, s in tampers(rng, g, hl, others, full):
                    if canon(s, hl) == g:
                        continue
                    items.append((kbpk, s, False, g, kind, key))
                # KBPK: every single-bit change that is not a DES parity bit
                for bit in (range(8 * ks) if ctx.thorough else rng.sample(range(8 * ks), 12)):
                    if v != "D" and bit % 8 == 0:
                        continue
                    k2 = bytearray(kbpk)
                    k2[bit // 8] ^= 1 << (bit % 8)
                    items.append((bytes(k2), g, False, g, "kbpk-bit", key))
                # a KBPK of another admissible length built from the same components (not equivalent for B and D)
                if v in "BD":
                    for k3 in {kbpk[:16], kbpk[:16] + kbpk[:8], kbpk + kbpk[:8], (kbpk + kbpk)[:32]}:
                        if k3 != kbpk and len(k3) in t.KBPK_SIZES[v]:
                            items.append((k3, g, False, g, "kbpk-other-length", key))
    budget = ctx.n(2600, 60000)
    if len(items) > budget:
        always = ("genuine", "lower-case hex", "kbpk-other-length", "mac-blank-ws", "prefix-ins", "prefix-ins+len", "line-folded",
                  "surrounded-by-blanks", "trailing-newline")
        always_prefix = ("mac-tail-blank", "mac-head-blank", "keydata-blank", "keydata-tail-blank")
        keep = [it for it in items if it[4] in always or it[4].startswith(always_prefix)]
        rest = [it for it in items if not (it[4] in always or it[4].startswith(always_prefix))]
        rng.shuffle(rest)
        items = keep + rest[:budget]
    munw = t.model_unwrap([(k, s) for k, s, *_ in items])
    for (kbpk, s, accept, g, kind, key), mu in zip(items, munw):
        iu = t.impl_unwrap(kbpk, s)
        try:
            o.tr31_unwrap(kbpk, s)
            ref = True
        except Exception:  # noqa: BLE001
            ref = False
        kk = "%s:%s:%s" % (s[:1] if s else "", kind.split("@")[0], iu[0] if iu[0] == "OK" else iu[1])
        dist[kk] = dist.get(kk, 0) + 1
        seen.add((kbpk, s))
        inp = {"kbpk": kbpk.hex(), "string": s, "genuine": g, "kind": kind}
        if iu[0] == "OK" and not ref:
            viol.append({"what": "unwrap returned a key for a block that the independent TR-31 implementation rejects as unauthentic under this KBPK",
                         "input": inp, "expected": "reject (or a block the reference also opens)", "observed": [str(x)[:80] for x in iu]})
        elif accept:
            if iu[0] != "OK" or iu[2] != core.show(key):
                viol.append({"what": "authentic block (or hex-case variant) not unwrapped to its key", "input": inp,
                             "expected": core.show(key), "observed": [str(x)[:80] for x in iu]})
        else:
            if iu[0] == "OK":
                viol.append({"what": "tampered / unauthentic key block accepted", "input": inp, "expected": "PsecError",
                             "observed": [str(x)[:80] for x in iu], "independent_reference_accepts": ref})
            elif iu[1] != "PsecError":
                viol.append({"what": "tampered block raised a foreign exception", "input": inp, "expected": "PsecError", "observed": iu[1]})
        if mu != iu:
            diffs.append({"kind": kind, "kbpk": kbpk.hex(), "string": s[:120], "impl": [str(x)[:60] for x in iu], "model": [str(x)[:60] for x in mu]})
        elif len(samples) < 6 and kind not in ("genuine",) and rng.random() < 0.01:
            samples.append({"kind": kind, "string": s[:90], "verdict": iu[0] if iu[0] == "OK" else iu[1]})
    # ---- one reused KeyBlock: a block authentic under K1 must be rejected after kbpk is reassigned to K2 (and accepted
    #      again after it is set back); whatever the object derived or cached before must not authenticate it
    seqs = []
    for v in "ABCD":
        for ks in t.KBPK_SIZES[v]:
            k1, k2 = rng.randbytes(ks), rng.randbytes(ks)
            c = t.gen_case(rng, version=v, profile="few", keylen=16, mask=None)
            g1 = tr31.wrap(k1, t.impl_header(c), c["key"])
            g2 = tr31.wrap(k2, t.impl_header(c), c["key"])
            seqs.append((k1, [("U", g1), ("K", k2), ("U", g1), ("U", g2), ("K", k1), ("U", g2), ("U", g1)], [True, None, False, True, None, False, True]))
    # ... the caller keeps the KBPK in one bytearray and overwrites it in place (M=): what the object derived before must not
    #     authenticate a block of the old key, and blocks of the new key must open
    for v in "ABCD":
        for ks in t.KBPK_SIZES[v]:
            k1, k2 = rng.randbytes(ks), rng.randbytes(ks)
            k1b = bytes([k1[0] ^ 0x10]) + k1[1:]           # one bit apart
            c = t.gen_case(rng, version=v, profile="few", keylen=16, mask=None)
            g1 = tr31.wrap(k1, t.impl_header(c), c["key"])
            g2 = tr31.wrap(k2, t.impl_header(c), c["key"])
            g1b = tr31.wrap(k1b, t.impl_header(c), c["key"])
            seqs.append((k1, [("M", k1), ("U", g1), ("M", k2), ("U", g1), ("U", g2), ("M", k1b), ("U", g1), ("U", g1b), ("W", c["key"], None), ("M", k1), ("U", g1)],
                         [None, True, None, False, True, None, False, True, None, None, True]))
    # ... and across versions on one object: a KBPK that is only DES-equivalent (parity-adjusted, or K1K2K1 for K1K2) to the
    #     current one must not open an AES (version D) block, whatever TDES operation the object performed before
    for ks in (16, 24):
        for v1 in "ABC":
            if ks not in t.KBPK_SIZES[v1]:
                continue
            k = rng.randbytes(ks)
            kadj = bytes(b if bin(b).count("1") % 2 else b ^ 1 for b in k)
            if kadj == k:
                continue
            c = t.gen_case(rng, version=v1, profile="few", keylen=16, mask=None)
            cd = t.gen_case(rng, version="D", profile="none", keylen=16, mask=None)
            g1 = tr31.wrap(k, t.impl_header(c), c["key"])
            gd_adj = tr31.wrap(kadj, t.impl_header(cd), cd["key"])
            gd = tr31.wrap(k, t.impl_header(cd), cd["key"])
            g1_adj = tr31.wrap(kadj, t.impl_header(c), c["key"])
            seqs.append((k, [("U", g1), ("U", gd_adj), ("U", gd), ("W", c["key"], None), ("U", gd_adj), ("U", g1)],
                         [True, False, True, None, False, True]))
            # (for A, B, C the parity-adjusted KBPK IS equivalent - DES ignores parity bits, also inside the CMAC derivation -
            #  so a block wrapped under it must open)
            seqs.append((k, [("U", gd), ("U", g1_adj), ("U", g1)], [True, True, True]))
    both, _ = t.run_both([(k, ops) for k, ops, _ in seqs])
    for (k, ops, want), (impl, model) in zip(seqs, both):
        if impl != model:
            diffs.append({"kind": "reused object", "ops": [core.op_token(o_)[:50] for o_ in ops], "impl": [x[:40] for x in impl[1]], "model": [x[:40] for x in model[1]]})
        for o_, w, out in zip(ops, want, impl[1]):
            if w is False and out.startswith("bytes:"):
                viol.append({"what": "a reused KeyBlock returned a key for a block that is not authentic under its current KBPK",
                             "input": {"kbpk": k.hex(), "ops": [core.op_token(x) for x in ops]}, "expected": "PsecError", "observed": out[:80]})
            if w is True and not out.startswith("bytes:"):
                viol.append({"what": "a reused KeyBlock rejected a block authentic under its current KBPK",
                             "input": {"kbpk": k.hex(), "ops": [core.op_token(x) for x in ops]}, "expected": "key", "observed": out[:80]})
    # a key block handed over as bytes / bytearray (not in the documented domain): whatever unwrap does with it, a block with
    # foreign bytes spliced in must not yield a key
    for v in "ABCD":
        c = t.gen_case(rng, version=v, profile="few", keylen=16, mask=None)
        g = tr31.wrap(c["kbpk"], t.impl_header(c), c["key"]).encode("ascii")
        for pos in (0, 3, 9, 17, len(g) - 9, len(g)):
            for junk in (b"\x80", b"\xff\xfe", b"\xc3\xa9"):
                for conv in (bytes, bytearray):
                    tampered = conv(g[:pos] + junk + g[pos:])
                    try:
                        r = tr31.unwrap(c["kbpk"], tampered)
                        viol.append({"what": "a key block given as bytes with foreign bytes spliced in was unwrapped", "input": {"kbpk": c["kbpk"].hex(), "string": repr(bytes(tampered))[:200]},
                                     "expected": "rejected", "observed": "key " + r[1].hex()})
                    except Exception:  # noqa: BLE001
                        pass
    dist["reused_object_sequences"] = len(seqs)
    tv, tcalls = t.threaded_unwraps(rng)
    viol += tv
    dist["unwraps_under_threads_with_different_kbpks"] = tcalls
    if not samples:
        samples.append({"kind": items[-1][4], "string": items[-1][1][:90]})
    return {"evaluations": len(items), "distinct_nontrivial": len(seen), "samples": samples, "distribution": dist,
            "diffs": diffs, "violations": viol,
            "rule": "around genuine blocks of every version x KBPK size x 3 layouts: substitutions at (sampled; every in thorough) positions "
                    "by the position's alphabet, insert/delete with and without length fix-up, truncation/extension, white space in the "
                    "hex section, MAC/header/attribute/optional-block/ciphertext transplants between genuine blocks of one KBPK, "
                    "non-parity single-bit KBPK changes, random multi-edits; expected: reject with the module's error unless equal to the "
                    "genuine block up to hex letter case; verdict compared impl vs model vs independent reference; "
                    "distinct_nontrivial = distinct (kbpk, string)"}
