"""C16 - generators and codecs accept exactly their documented domain."""
from harness import core, framework as fw

HOSTILE = ["０", "٣", "²", "+", "-", "_", " ", "\x00", "\n", "\t", "A", "a", "z", "é", "٠", "\U0001d7d8", ".", "/", ":",
           "\ufb00", "\u212a", "\u017f", "\u0131"]      # the last four: upper() / lower() gives "FF", "k", "S", "I"
DIG = "0123456789"
HEX = "0123456789abcdefABCDEF"


def dec(s):
    return all(c in DIG for c in s)


def rnd(rng, n, alpha=DIG):
    return "".join(rng.choice(alpha) for _ in range(n))


def mutate(rng, s):
    """one hostile edit of a valid decimal string"""
    k = rng.randrange(4)
    if k == 0 and s:
        i = rng.randrange(len(s))
        return s[:i] + rng.choice(HOSTILE) + s[i + 1:]
    if k == 1:
        i = rng.randrange(len(s) + 1)
        return s[:i] + rng.choice(HOSTILE) + s[i:]
    if k == 2:
        return rng.choice(["+", "-", " "]) + s
    return s + rng.choice(["\n", " ", "\x00"])


# documented domains, written out independently of the code under test
def dom(fn, a):
    if fn in ("encode_pinblock_iso_0",):
        return 4 <= len(a[0]) <= 12 and dec(a[0]) and len(a[1]) >= 13 and dec(a[1])
    if fn in ("encode_pinblock_iso_2", "encode_pin_field_iso_4"):
        return 4 <= len(a[0]) <= 12 and dec(a[0])
    if fn == "encode_pinblock_iso_3":
        return 4 <= len(a[0]) <= 12 and dec(a[0]) and len(a[1]) >= 13 and dec(a[1])
    if fn == "encipher_pinblock_iso_4":
        return len(a[0]) in (16, 24, 32) and 4 <= len(a[1]) <= 12 and dec(a[1]) and 1 <= len(a[2]) <= 19 and dec(a[2])
    if fn == "encode_pan_field_iso_4":
        return 1 <= len(a[0]) <= 19 and dec(a[0])
    if fn == "generate_cvv":
        return len(a[0]) == 16 and len(a[1]) <= 19 and dec(a[1]) and len(a[2]) == 4 and dec(a[2]) and len(a[3]) == 3 and dec(a[3])
    if fn == "generate_visa_pvv":
        return len(a[0]) in (8, 16, 24) and len(a[1]) == 1 and dec(a[1]) and len(a[2]) == 4 and dec(a[2]) and len(a[3]) >= 12 and dec(a[3])
    if fn in ("generate_ibm3624_pin", "generate_ibm3624_offset"):
        pvk, table, d, pan, off, ln, pad = a
        return (len(pvk) in (8, 16, 24) and len(table) == 16 and dec(table) and 4 <= len(d) <= 16 and dec(d) and len(pan) <= 19
                and dec(pan) and len(pad) == 1 and pad in HEX and (ln == 0 or off + ln <= len(pan)))
    if fn == "generate_cbc_mac":
        key, data, padding, length, is_aes = a
        return padding in (1, 2, 3) and len(key) in ((16, 24, 32) if is_aes else (8, 16, 24))
    if fn == "generate_retail_mac":
        return a[3] in (1, 2, 3) and len(a[0]) in (8, 16, 24) and len(a[1]) in (8, 16, 24)
    if fn == "generate_kcv":
        return len(a[0]) in (8, 16, 24)
    if fn == "apply_key_variant":
        return len(a[0]) in (8, 16, 24) and 0 <= a[1] <= 31
    if fn.startswith(("encrypt_", "decrypt_")):
        alg, mode = fn.split("_")[1:]
        bs = 8 if alg == "tdes" else 16
        ks = (8, 16, 24) if alg == "tdes" else (16, 24, 32)
        data = a[-1]
        return len(a[0]) in ks and len(data) > 0 and len(data) % bs == 0 and (mode == "ecb" or len(a[1]) == bs)
    raise KeyError(fn)


def check_impl(fn, args, out):
    if fn.startswith("decode_") or fn.startswith("decipher_"):
        # acceptance set is C06; here: only Ok or ValueError, and the documented size / PAN guards
        if out[0] == "ERR" and out[1] != "ValueError":
            return {"what": "decoder raised another exception type", "expected": "Ok or ValueError", "observed": list(out)}
        want = {"decode_pinblock_iso_0": 8, "decode_pinblock_iso_2": 8, "decode_pinblock_iso_3": 8,
                "decode_pin_field_iso_4": 16, "decipher_pinblock_iso_4": 16}[fn]
        blk = args[1] if fn == "decipher_pinblock_iso_4" else args[0]
        if len(blk) != want and out[0] == "OK":
            return {"what": "a block of the wrong size was decoded", "expected": "ValueError", "observed": list(out)}
        return None
    d = dom(fn, args)
    if d and out[0] != "OK":
        return {"what": "input inside the documented domain rejected", "expected": "OK", "observed": list(out)}
    if not d and out != ("ERR", "ValueError"):
        return {"what": "input outside the documented domain not rejected with ValueError", "expected": "ValueError", "observed": list(out)}
    return None


def text_variants(rng, valid, lo, hi, extra_ok=()):
    """valid strings at and around the length bounds + hostile edits"""
    out = []
    for n in sorted({max(lo - 1, 0), lo, lo + 1, hi - 1, hi, hi + 1}):
        out.append(rnd(rng, n))
    for _ in range(6):
        out.append(mutate(rng, valid))
    for h in rng.sample(HOSTILE, 5):
        out.append(valid[:-1] + h)
        out.append(h + valid[1:])
    return out


def run(ctx):
    rng = ctx.rng
    cases = []
    rep = ctx.n(1, 4)
    for _ in range(rep):
        pin, pan, pan4 = rnd(rng, 6), rnd(rng, 16), rnd(rng, 10)
        for v in text_variants(rng, pin, 4, 12):
            cases.append(("encode_pinblock_iso_0", (v, pan)))
            cases.append(("encode_pinblock_iso_2", (v,)))
        for v in text_variants(rng, pan, 13, 24):
            cases.append(("encode_pinblock_iso_0", (pin, v)))
            cases.append(("decode_pinblock_iso_0", (rng.randbytes(8), v)))
            cases.append(("decode_pinblock_iso_3", (rng.randbytes(8), v)))
        for v in text_variants(rng, pan4, 1, 19):
            cases.append(("encode_pan_field_iso_4", (v,)))
            cases.append(("decipher_pinblock_iso_4", (rng.randbytes(16), rng.randbytes(16), v)))
        for n in range(0, 41):
            cases.append(("decode_pinblock_iso_0", (rng.randbytes(n), pan)))
            cases.append(("decode_pinblock_iso_2", (rng.randbytes(n),)))
            cases.append(("decode_pinblock_iso_3", (rng.randbytes(n), pan)))
            cases.append(("decode_pin_field_iso_4", (rng.randbytes(n),)))
            cases.append(("decipher_pinblock_iso_4", (rng.randbytes(16), rng.randbytes(n), pan4)))
            cases.append(("decipher_pinblock_iso_4", (rng.randbytes(n), rng.randbytes(16), pan4)))
        # cvv
        cvk, e, s = rng.randbytes(16), rnd(rng, 4), rnd(rng, 3)
        for v in text_variants(rng, pan, 0, 19):
            cases.append(("generate_cvv", (cvk, v, e, s)))
        for v in text_variants(rng, e, 4, 4):
            cases.append(("generate_cvv", (cvk, pan, v, s)))
        for v in text_variants(rng, s, 3, 3):
            cases.append(("generate_cvv", (cvk, pan, e, v)))
        for n in range(0, 41):
            cases.append(("generate_cvv", (rng.randbytes(n), pan, e, s)))
        # pvv
        pvk = rng.randbytes(16)
        for v in text_variants(rng, "1", 1, 1):
            cases.append(("generate_visa_pvv", (pvk, v, "1234", pan)))
        for v in text_variants(rng, "1234", 4, 4):
            cases.append(("generate_visa_pvv", (pvk, "1", v, pan)))
        for v in text_variants(rng, pan, 12, 24):
            cases.append(("generate_visa_pvv", (pvk, "1", "1234", v)))
        for n in range(0, 41):
            cases.append(("generate_visa_pvv", (rng.randbytes(n), "1", "1234", pan)))
        # ibm 3624
        table = rnd(rng, 16)
        for fn in ("generate_ibm3624_pin", "generate_ibm3624_offset"):
            for v in text_variants(rng, table, 16, 16):
                cases.append((fn, (pvk, v, "1234", pan, 0, 12, "F")))
            for v in text_variants(rng, "123456", 4, 16):
                cases.append((fn, (pvk, table, v, pan, 0, 12, "F")))
            for v in text_variants(rng, pan, 0, 19):
                cases.append((fn, (pvk, table, "1234", v, 0, min(12, len(v)), "F")))
            runs = [alpha[i:i + k] for alpha in ("0123456789ABCDEFabcdef", "0123456789abcdefABCDEF", "0123456789ABCDEF", "0123456789abcdef")
                    for k in (2, 3, 16) for i in range(0, len(alpha) - k + 1)]
            for v in list(HEX) + HOSTILE + ["", "FF", "0F", "G", "g", "0123456789ABCDEFabcdef", "F ", " F", "F\n", "0x", "0xF"] + sorted(set(runs)):
                cases.append((fn, (pvk, table, "1234", pan, 0, 12, v)))
                if len(v) == 1 and v not in HEX:
                    cases.append((fn, (pvk, table, "1234", pan, 0, 16, v)))       # windows that need no pad character
                    cases.append((fn, (pvk, table, "1234", pan, 0, 0, v)))
            for off in range(0, 19):
                for ln in (0, 1, 16 - off, 17 - off, 18):
                    if ln >= 0:
                        cases.append((fn, (pvk, table, "1234", pan, off, ln, "F")))
            for n in range(0, 41):
                cases.append((fn, (rng.randbytes(n), table, "1234", pan, 0, 12, "F")))
            for pl in (0, 3, 11, 12, 15, 16, 19):
                span = rnd(rng, pl)
                for off in sorted({0, 1, pl, pl + 1}):
                    for ln in sorted({0, 1, max(0, pl - off), pl - off + 1, max(0, 16 - off), 16, 17}):
                        cases.append((fn, (pvk, table, "1234", span, off, ln, "F")))
        # MACs and ciphers: every key / iv / data length 0..40
        for n in range(0, 41):
            cases.append(("generate_cbc_mac", (rng.randbytes(n), b"abc", 1, None, False)))
            cases.append(("generate_cbc_mac", (rng.randbytes(n), b"abc", 2, None, True)))
            cases.append(("generate_retail_mac", (rng.randbytes(n), rng.randbytes(8), b"abc", 1, None)))
            cases.append(("generate_retail_mac", (rng.randbytes(8), rng.randbytes(n), b"abc", 3, None)))
            cases.append(("generate_kcv", (rng.randbytes(n), 3)))
            cases.append(("apply_key_variant", (rng.randbytes(n), 5)))
            for alg, bs, ks in (("tdes", 8, 16), ("aes", 16, 24)):
                for d in ("encrypt", "decrypt"):
                    cases.append(("%s_%s_ecb" % (d, alg), (rng.randbytes(n), rng.randbytes(2 * bs))))
                    cases.append(("%s_%s_ecb" % (d, alg), (rng.randbytes(ks), rng.randbytes(n))))
                    cases.append(("%s_%s_cbc" % (d, alg), (rng.randbytes(ks), rng.randbytes(n), rng.randbytes(bs))))
                    cases.append(("%s_%s_cbc" % (d, alg), (rng.randbytes(ks), rng.randbytes(bs), rng.randbytes(n))))
        for p in (-1, 0, 4, 7):
            cases.append(("generate_cbc_mac", (rng.randbytes(16), b"abc", p, None, False)))
            cases.append(("generate_retail_mac", (rng.randbytes(8), rng.randbytes(8), b"abc", p, None)))
        for v in (-1, 0, 31, 32, 100):
            cases.append(("apply_key_variant", (rng.randbytes(16), v)))
    # the randomised encoders: only the accept / reject verdict is compared (implementation side)
    RANDOMISED = ("encode_pinblock_iso_3", "encode_pin_field_iso_4", "encipher_pinblock_iso_4")
    rand_cases = []
    pin, pan, pan4 = rnd(rng, 6), rnd(rng, 16), rnd(rng, 10)
    for v in text_variants(rng, pin, 4, 12):
        rand_cases += [("encode_pinblock_iso_3", (v, pan)), ("encode_pin_field_iso_4", (v,)),
                       ("encipher_pinblock_iso_4", (rng.randbytes(16), v, pan4))]
    for v in text_variants(rng, pan, 13, 24):
        rand_cases.append(("encode_pinblock_iso_3", (pin, v)))
    for v in text_variants(rng, pan4, 1, 19):
        rand_cases.append(("encipher_pinblock_iso_4", (rng.randbytes(24), pin, v)))
    for n in range(0, 41):
        rand_cases.append(("encipher_pinblock_iso_4", (rng.randbytes(n), pin, pan4)))
    # a genuine format 4 block followed by further whole blocks (or cut short) is still a wrong-size block
    from psec import pinblock as _pb
    for ks in (16, 24, 32):
        k_ = rng.randbytes(ks)
        g_ = _pb.encipher_pinblock_iso_4(k_, pin, pan4)
        for blk in (g_ + rng.randbytes(16), g_ + g_, g_ + bytes(32), g_[:8], g_ + b"\x00", b""):
            cases.append(("decipher_pinblock_iso_4", (k_, blk, pan4)))
    g0 = _pb.encode_pinblock_iso_0(pin, pan)
    for blk in (g0 + g0, g0 + b"\x00", g0[:7], g0 + rng.randbytes(8)):
        cases.append(("decode_pinblock_iso_0", (blk, pan)))
        cases.append(("decode_pinblock_iso_3", (blk, pan)))
        cases.append(("decode_pinblock_iso_2", (blk,)))
    # negative numbers are outside the model's typed domain (N): keep them impl-only
    impl_only = [c for c in cases if any(isinstance(x, int) and not isinstance(x, bool) and x < 0 for x in c[1])
                 and c[0] != "apply_key_variant"]
    cases = [c for c in cases if c not in impl_only]
    from harness import gens
    cases = fw.with_history(rng, cases, gens.variants_generic(rng), fraction=0.03, limit=60)
    cases = [c for c in cases if not any(isinstance(x, int) and not isinstance(x, bool) and x < 0 for x in c[1]) or c[0] == "apply_key_variant"]
    res = fw.call_result(
        cases, check_impl=check_impl, nontrivial=lambda fn, a, o_: True,
        rule="for each text parameter of each function: lengths around each bound x hostile alphabet (full-width, Arabic-Indic, "
             "superscript, math digits, signs, '_', white space, NUL, letters) by substitution / insertion / prefix / suffix; byte "
             "parameters (keys, IVs, data, blocks) every length 0..40; IBM 3624 windows incl. past the end; verdict of impl and "
             "model compared with independently written domain predicates; non-trivial = distinct cases (every case probes a guard)")
    for fn, args in impl_only + rand_cases:
        out = core.impl_call(fn, args)
        if fn in RANDOMISED and out[0] == "OK":
            out = ("OK", "")
        v = check_impl(fn, args, out)
        res["evaluations"] += 1
        if v:
            v["input"] = {"fn": fn, "args": [core.show(x) for x in args]}
            res["violations"].append(v)
    return res
