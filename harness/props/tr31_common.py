"""Shared TR-31 generators and runners (C01, C02, C03, C12, C13, C15, C17)."""
import string

from harness import core
from psec import tr31

ALNUM = string.ascii_letters + string.digits
PRINT = "".join(chr(c) for c in range(32, 127))
KBPK_SIZES = {"A": (8, 16, 24), "B": (16, 24), "C": (8, 16, 24), "D": (16, 24, 32)}
BS = {"A": 8, "B": 8, "C": 8, "D": 16}
MACLEN = {"A": 4, "B": 8, "C": 4, "D": 16}


def rstr(rng, n, alpha):
    return "".join(rng.choice(alpha) for _ in range(n))


def gen_block_id(rng, used):
    while True:
        bid = rstr(rng, 2, ALNUM)
        if bid.upper() != "PB" and bid not in used:
            used.add(bid)
            return bid


def gen_blocks(rng, profile):
    """profile: none | few | boundary | many | big"""
    used = set()
    blocks = []
    if profile == "none":
        return blocks
    if profile == "few":
        for _ in range(rng.randrange(1, 5)):
            blocks.append((gen_block_id(rng, used), rstr(rng, rng.randrange(0, 40), PRINT)))
    elif profile == "boundary":
        for ln in rng.sample([0, 1, 3, 4, 250, 251, 252, 253, 300], rng.randrange(1, 4)):
            blocks.append((gen_block_id(rng, used), rstr(rng, ln, PRINT)))
    elif profile == "many":
        n = rng.choice([97, 98, 99, 100, rng.randrange(20, 97)])
        for _ in range(n):
            blocks.append((gen_block_id(rng, used), rstr(rng, rng.randrange(0, 6), PRINT)))
    elif profile == "ws_aligned":
        # data with leading / trailing blanks, total length a multiple of 16 so that NO pad block follows: the header
        # string then ends in a blank
        total = 0
        for _ in range(rng.randrange(1, 4)):
            d = rng.choice([" ", "  ", ""]) + rstr(rng, rng.randrange(0, 12), PRINT) + rng.choice([" ", "   "])
            blocks.append((gen_block_id(rng, used), d))
            total += 4 + len(d)
        fill = (-(total + 4)) % 16
        blocks.append((gen_block_id(rng, used), rstr(rng, max(0, fill - 1), PRINT) + (" " if fill else "")))
        if not fill:
            blocks[-1] = (blocks[-1][0], rstr(rng, 15, PRINT) + " ")
    elif profile == "big":
        total = rng.choice([9984, 9990, 9999, 9800, 9700, 9600])
        budget = total - 16 - 100
        while budget > 300:
            ln = min(budget - 10, rng.choice([600, 1500, 2500, 252, 251]))
            blocks.append((gen_block_id(rng, used), rstr(rng, ln, PRINT)))
            budget -= ln + 10
    return blocks


def gen_case(rng, version=None, profile=None, keylen=None, mask="auto", valid_kbpk=True, algorithm=None):
    version = version or rng.choice("ABCD")
    profile = profile or rng.choice(["none", "none", "few", "few", "boundary", "many", "big", "ws_aligned"])
    if valid_kbpk:
        from harness import gens
        kbpk = gens.key(rng, rng.choice(KBPK_SIZES[version]))
    else:
        kbpk = rng.randbytes(rng.choice([0, 1, 7, 8, 9, 15, 17, 23, 25, 31, 32, 33, 40]))
    alg = algorithm or rng.choice(["T", "D", "A", "R", "H", "E", "0", rng.choice(ALNUM)])
    hdr16 = (version + "0000" + rstr(rng, 2, ALNUM) + alg + rstr(rng, 1, ALNUM) + rstr(rng, 2, ALNUM)
             + rstr(rng, 1, ALNUM) + "00" + (rstr(rng, 2, ALNUM) if rng.random() < 0.5 else "00"))
    blocks = gen_blocks(rng, profile)
    if keylen is None:
        keylen = rng.choice(list(range(0, 34)) + [8, 16, 24, 32, 48, rng.randrange(0, 70)])      # every small length: 2, 3, 4 bytes are 16, 24, 32 bits
    key = rng.randbytes(keylen)
    if mask == "auto":
        mask = rng.choice([None, None, -8, -1, 0, max(0, keylen - 3), keylen, keylen + 1, keylen + 9, 24, 32, 40, 64])
    return {"kbpk": kbpk, "hdr16": hdr16, "blocks": blocks, "key": key, "mask": mask, "version": version}


def setup_ops(c):
    return [("L", c["hdr16"])] + [("B", bid, data) for bid, data in c["blocks"]]


class SubHeader(tr31.Header):
    """a caller's own subclass of Header (isinstance(h, Header) holds): must be treated like a Header"""


def impl_header(c):
    """a fresh Header object holding the case's fields / reserved / blocks (for every other case an instance of a subclass)"""
    h = (SubHeader if sum(map(ord, c["hdr16"])) % 2 else tr31.Header)()
    h.load(c["hdr16"])
    for bid, data in c["blocks"]:
        core.set_block(h.blocks, bid, data)
    return h


def run_both(cases_ops):
    """cases_ops: [(kbpk, ops)] with wrap ops ("W", key, mask).
    -> [(impl (hdr, outs), model (hdr, outs))]; tapes recovered from the impl output."""
    impl = [core.impl_run_ops(k, ops) for k, ops in cases_ops]
    mops = core.with_tapes(cases_ops, impl)
    lines = [core.model_run_line(k, ops) for k, ops in mops]
    model = [core.parse_model_run(l) for l in core.run_model(lines)]
    return list(zip(impl, model)), mops


def model_unwrap(items):
    """items: [(kbpk, key_block_text)] -> [("OK", header_text, key_text) | ("ERR", bucket)]"""
    lines = ["unwrap " + core.show(k) + " " + core.show(s) for k, s in items]
    out = []
    for l in core.run_model(lines):
        st, txt = core.parse_model(l)
        if st == "OK":
            h, key = txt.split(" ")
            out.append(("OK", h, key))
        else:
            out.append((st, txt))
    return out


def impl_unwrap(kbpk, s):
    try:
        h, key = tr31.unwrap(kbpk, s)
        return ("OK", core.show_header(h), core.show(key))
    except Exception as e:  # noqa: BLE001
        return ("ERR", core.bucket(e))


def selfref_cases(rng, per_version=2):
    """cases whose fields / reserved / block data contain the very digit strings the serialiser writes as length
    fields (the header-only length that str(header) reports and the final key block length): text-level
    search-and-replace slips in the serialiser only show on such content"""
    out = []
    for v in "ABCD":
        for prof in ("none", "few", "ws_aligned")[:per_version + 1]:
            c = gen_case(rng, version=v, profile=prof, keylen=rng.choice([8, 16, 24]), mask=None, algorithm="T")
            try:
                h = impl_header(c)
                L = str(h)[1:5]
                K = tr31.wrap(c["kbpk"], h, c["key"])[1:5]
            except Exception:  # noqa: BLE001
                continue
            for digits in (L, K):
                c2 = dict(c)
                c2["hdr16"] = c["hdr16"][:5] + digits + c["hdr16"][9:]           # key usage + algorithm + mode of use
                out.append(c2)
                c3 = dict(c)
                c3["hdr16"] = c["hdr16"][:9] + digits[:2] + c["hdr16"][11] + c["hdr16"][12:14] + digits[2:]   # version number, reserved
                out.append(c3)
                if c["blocks"]:
                    c4 = dict(c)
                    bl = list(c["blocks"])
                    i = rng.randrange(len(bl))
                    d = bl[i][1]
                    bl[i] = (bl[i][0], (digits + d[4:]) if len(d) >= 4 else d)
                    j = rng.randrange(len(bl))
                    if len(bl[j][1]) >= 8 and j != i:
                        bl[j] = (bl[j][0], bl[j][1][:-4] + digits)
                    c4["blocks"] = bl
                    out.append(c4)
                else:
                    c5 = dict(c)
                    c5["hdr16"] = c["hdr16"][:14] + digits[2:]       # no blocks: count "00" + reserved = the digits when < 100
                    out.append(c5)
    return out


def threaded_wraps(rng, aspect, rounds=2, nthreads=8, per_thread=24):
    """ONE KeyBlock per version shared by `nthreads` threads that wrap different keys / masks at overlapping times
    (switch interval 1e-6).  wrap is documented not to modify the object, so every result must be what a fresh
    object gives: aspect "roundtrip" (opens to the key and header), "length" (same length as a sequential wrap of the
    same key and mask), "fresh" (no two outputs and no two recovered paddings equal).  -> (violations, calls)"""
    import sys
    import threading
    from harness import oracles as o
    viol, calls = [], 0
    for v in "ABCD":
        for _ in range(rounds):
            kbpk = rng.randbytes(rng.choice(KBPK_SIZES[v]))
            c = gen_case(rng, version=v, profile=rng.choice(["none", "few"]), algorithm=rng.choice("TAH"))
            kb = tr31.KeyBlock(kbpk, impl_header(c))
            want_hdr = core.show_header(kb.header)
            jobs = []
            for i in range(nthreads * per_thread):
                kl = rng.choice([8, 16, 24, 5, 32, 40, 1])
                mask = rng.choice([None, None, 16, 24, 40, 64, kl])
                jobs.append((rng.randbytes(kl), mask))
            seq_len = {}
            for key, mask in jobs:
                k = (len(key), mask)
                if k not in seq_len:
                    try:
                        seq_len[k] = len(tr31.KeyBlock(kbpk, impl_header(c)).wrap(key, mask))
                    except Exception as e:  # noqa: BLE001
                        seq_len[k] = core.bucket(e)
            outs = [None] * len(jobs)

            def runner(t0):
                for j in range(t0, len(jobs), nthreads):
                    try:
                        outs[j] = kb.wrap(jobs[j][0], jobs[j][1])
                    except Exception as e:  # noqa: BLE001
                        outs[j] = e

            old = sys.getswitchinterval()
            sys.setswitchinterval(1e-6)
            try:
                ths = [threading.Thread(target=runner, args=(k,)) for k in range(nthreads)]
                for th in ths:
                    th.start()
                for th in ths:
                    th.join()
            finally:
                sys.setswitchinterval(old)
            calls += len(jobs)
            hist = "one KeyBlock (version %s, %d-byte KBPK, %d blocks) shared by %d threads wrapping different keys/masks" % (
                v, len(kbpk), len(c["blocks"]), nthreads)
            seen_out, seen_pad = {}, {}
            for (key, mask), out in zip(jobs, outs):
                inp = {"history": hist, "kbpk": kbpk.hex(), "hdr16": c["hdr16"], "key_len": len(key), "mask": mask}
                exp_len = seq_len[(len(key), mask)]
                if isinstance(out, Exception):
                    if not isinstance(exp_len, str):
                        viol.append({"what": "wrap on a shared KeyBlock failed under threads although it succeeds alone", "input": inp,
                                     "expected": "key block of %d characters" % exp_len, "observed": repr(out)[:160]})
                    continue
                if aspect == "length" and len(out) != exp_len:
                    viol.append({"what": "key block length under concurrent wraps on a shared KeyBlock differs from the sequential length",
                                 "input": inp, "expected": exp_len, "observed": len(out)})
                if aspect == "roundtrip":
                    u = impl_unwrap(kbpk, out)
                    if u != ("OK", want_hdr, core.show(key)):
                        viol.append({"what": "key block produced under concurrent wraps on a shared KeyBlock does not open to the key and header",
                                     "input": inp, "expected": ["OK", want_hdr[:80], core.show(key)[:60]], "observed": [str(x)[:100] for x in u]})
                if aspect == "fresh":
                    if out in seen_out:
                        viol.append({"what": "two concurrent wraps on a shared KeyBlock returned the identical key block", "input": inp,
                                     "expected": "fresh padding per call", "observed": out[:80]})
                    seen_out[out] = 1
                    try:
                        clear = o.tr31_clear(kbpk, out)
                        pad = clear[2 + int.from_bytes(clear[:2], "big") // 8:]
                        if len(pad) >= 6:
                            if pad in seen_pad:
                                viol.append({"what": "two concurrent wraps on a shared KeyBlock carry the same random padding", "input": inp,
                                             "expected": "fresh padding per call", "observed": pad.hex()})
                            seen_pad[pad] = 1
                    except Exception:  # noqa: BLE001
                        pass
            if core.show_header(kb.header) != want_hdr:
                viol.append({"what": "concurrent wraps modified the shared KeyBlock's header", "input": {"history": hist},
                             "expected": want_hdr[:120], "observed": core.show_header(kb.header)[:120]})
    return viol[:30], calls


_BOUNDARY_CACHE = {}


def cmac_boundary_kbpks(rng, want=(0x80,), versions="BD"):
    """KBPKs for versions B / D at the data-dependent corner of CMAC subkey generation (SP 800-38B: K1 = L<<1, xor Rb
    iff msb(L) = 1; K2 likewise from K1): L = E_K(0) or K1 starts with exactly 0x80 (msb set, nothing else) - for the
    KBPK itself (its CMAC derives KBEK/KBAK) and for the derived KBAK (its CMAC authenticates the block).  About one
    key in 256 per target; found by search with the independent reference.  -> [(version, kbpk, label)]"""
    from harness import oracles as o
    key = (tuple(want), versions)
    if key in _BOUNDARY_CACHE:
        return _BOUNDARY_CACHE[key]

    def dbl(b, bs):
        n = int.from_bytes(b, "big") << 1
        if b[0] & 0x80:
            n ^= 0x1B if bs == 8 else 0x87
        return (n & ((1 << (8 * bs)) - 1)).to_bytes(bs, "big")

    out = []
    for v in versions:
        kind, bs = ("des", 8) if v == "B" else ("aes", 16)
        for ks in KBPK_SIZES[v]:
            for which in ("kbpk", "kbak"):
                for sub in ("L", "K1"):
                    for val in want:
                        for _ in range(6000):
                            kbpk = rng.randbytes(ks)
                            k = kbpk if which == "kbpk" else o.tr31_derive(v, kbpk)[1]
                            L = o.E(kind, k, bytes(bs))
                            x = L if sub == "L" else dbl(L, bs)
                            if x[0] == val:
                                out.append((v, kbpk, "%s of the %s starts with 0x%02X" % (sub, which.upper(), val)))
                                break
    _BOUNDARY_CACHE[key] = out
    return out


def threaded_unwraps(rng, nthreads=8, per_thread=60):
    """`nthreads` threads, each with its OWN KBPK, call the module-level tr31.unwrap on a mix of blocks genuine under
    their key (must open to the key) and genuine under another thread's key (must be rejected), at switch interval
    1e-6: state shared between calls (a module-level KeyBlock, cached derived keys) only fails here.  -> (violations, calls)"""
    import sys
    import threading
    viol = []
    keys = []
    for i in range(nthreads):
        v = "ABCD"[i % 4]
        kbpk = rng.randbytes(16 if i % 2 else 24)
        c = gen_case(rng, version=v, profile=rng.choice(["none", "few"]), keylen=16, mask=None)
        g = tr31.wrap(kbpk, impl_header(c), c["key"])
        keys.append((kbpk, g, c["key"]))
    jobs = []
    for ti in range(nthreads):
        mine = []
        for _ in range(per_thread):
            if rng.random() < 0.5:
                mine.append((keys[ti][0], keys[ti][1], keys[ti][2]))
            else:
                oi = rng.choice([x for x in range(nthreads) if x != ti and len(keys[x][0]) == len(keys[ti][0])] or [ti])
                mine.append((keys[ti][0], keys[oi][1], keys[oi][2] if oi == ti else None))
        jobs.append(mine)
    res = [[None] * per_thread for _ in range(nthreads)]

    def runner(ti):
        for j, (kbpk, blk, _) in enumerate(jobs[ti]):
            try:
                res[ti][j] = ("OK", tr31.unwrap(kbpk, blk)[1])
            except Exception as e:  # noqa: BLE001
                res[ti][j] = ("ERR", core.bucket(e))

    old = sys.getswitchinterval()
    sys.setswitchinterval(1e-6)
    try:
        ths = [threading.Thread(target=runner, args=(k,)) for k in range(nthreads)]
        for th in ths:
            th.start()
        for th in ths:
            th.join()
    finally:
        sys.setswitchinterval(old)
    for ti in range(nthreads):
        for (kbpk, blk, want), r in zip(jobs[ti], res[ti]):
            ok = (r == ("OK", want)) if want is not None else (r == ("ERR", "PsecError"))
            if not ok and len(viol) < 10:
                viol.append({"what": "module-level unwrap under %d concurrent threads with different KBPKs: %s" % (
                                 nthreads, "a block genuine under ANOTHER thread's KBPK was not rejected" if want is None else "a genuine block did not open to its key"),
                             "input": {"kbpk": kbpk.hex(), "string": blk, "history": "%d threads, each unwrapping with its own KBPK" % nthreads},
                             "expected": "PsecError" if want is None else core.show(want), "observed": [str(x)[:80] for x in r]})
    return viol, nthreads * per_thread


def reference_block(rng, c, kbpk=None, **choice):
    """a key block for case c produced by the INDEPENDENT reference (harness/oracles.py) with the given encoding
    freedoms (pad-block filler / position / extended form, hex case, extended lengths ...); None when it does not fit"""
    from harness import oracles as o
    h = impl_header(c)
    f = {"version_id": h.version_id, "key_usage": h.key_usage, "algorithm": h.algorithm, "mode_of_use": h.mode_of_use,
         "version_num": h.version_num, "exportability": h.exportability, "reserved": h.reserved}
    bs = BS[c["version"]]
    padlen = (-(2 + len(c["key"]))) % bs + bs * rng.choice([0, 1])
    try:
        kb = o.tr31_wrap(kbpk or c["kbpk"], f, list(h.blocks.items()), c["key"], rng.randbytes(padlen), **choice)
    except AssertionError:
        return None
    return kb if len(kb) <= 9999 else None
