"""Shared TR-31 generators and runners (C01, C02, C03, C12, C13, C15, C17)."""
import string

from harness import core
from psec import tr31

ALNUM = string.ascii_letters + string.digits
PRINT = "".join(chr(c) for c in range(32, 127))
KBPK_SIZES = {"A": (8, 16, 24), "B": (16, 24), "C": (8, 16, 24), "D": (16, 24, 32)}
BS = {"A": 8, "B": 8, "C": 8, "D": 16}
MACLEN = {"A": 4, "B": 8, "C": 4, "D": 16}


def rstr(rng, n, alpha):
    return "".join(rng.choice(alpha) for _ in range(n))


def gen_block_id(rng, used):
    while True:
        bid = rstr(rng, 2, ALNUM)
        if bid.upper() != "PB" and bid not in used:
            used.add(bid)
            return bid


def gen_blocks(rng, profile):
    """profile: none | few | boundary | many | big"""
    used = set()
    blocks = []
    if profile == "none":
        return blocks
    if profile == "few":
        for _ in range(rng.randrange(1, 5)):
            blocks.append((gen_block_id(rng, used), rstr(rng, rng.randrange(0, 40), PRINT)))
    elif profile == "boundary":
        for ln in rng.sample([0, 1, 3, 4, 250, 251, 252, 253, 300], rng.randrange(1, 4)):
            blocks.append((gen_block_id(rng, used), rstr(rng, ln, PRINT)))
    elif profile == "many":
        n = rng.choice([97, 98, 99, 100, rng.randrange(20, 97)])
        for _ in range(n):
            blocks.append((gen_block_id(rng, used), rstr(rng, rng.randrange(0, 6), PRINT)))
    elif profile == "big":
        total = rng.choice([9984, 9990, 9999, 9800, 9700, 9600])
        budget = total - 16 - 100
        while budget > 300:
            ln = min(budget - 10, rng.choice([600, 1500, 2500, 252, 251]))
            blocks.append((gen_block_id(rng, used), rstr(rng, ln, PRINT)))
            budget -= ln + 10
    return blocks


def gen_case(rng, version=None, profile=None, keylen=None, mask="auto", valid_kbpk=True, algorithm=None):
    version = version or rng.choice("ABCD")
    profile = profile or rng.choice(["none", "none", "few", "few", "boundary", "many", "big"])
    if valid_kbpk:
        from harness import gens
        kbpk = gens.key(rng, rng.choice(KBPK_SIZES[version]))
    else:
        kbpk = rng.randbytes(rng.choice([0, 1, 7, 8, 9, 15, 17, 23, 25, 31, 32, 33, 40]))
    alg = algorithm or rng.choice(["T", "D", "A", "R", "H", "E", "0", rng.choice(ALNUM)])
    hdr16 = (version + "0000" + rstr(rng, 2, ALNUM) + alg + rstr(rng, 1, ALNUM) + rstr(rng, 2, ALNUM)
             + rstr(rng, 1, ALNUM) + "00" + (rstr(rng, 2, ALNUM) if rng.random() < 0.5 else "00"))
    blocks = gen_blocks(rng, profile)
    if keylen is None:
        keylen = rng.choice([0, 1, 5, 6, 7, 8, 13, 14, 15, 16, 21, 22, 23, 24, 29, 30, 31, 32, 33, 48, rng.randrange(0, 70)])
    key = rng.randbytes(keylen)
    if mask == "auto":
        mask = rng.choice([None, None, -8, -1, 0, max(0, keylen - 3), keylen, keylen + 1, keylen + 9, 24, 32, 40, 64])
    return {"kbpk": kbpk, "hdr16": hdr16, "blocks": blocks, "key": key, "mask": mask, "version": version}


def setup_ops(c):
    return [("L", c["hdr16"])] + [("B", bid, data) for bid, data in c["blocks"]]


def impl_header(c):
    """a fresh Header object holding the case's fields / reserved / blocks"""
    h = tr31.Header()
    h.load(c["hdr16"])
    for bid, data in c["blocks"]:
        h.blocks[bid] = data
    return h


def run_both(cases_ops):
    """cases_ops: [(kbpk, ops)] with wrap ops ("W", key, mask).
    -> [(impl (hdr, outs), model (hdr, outs))]; tapes recovered from the impl output."""
    impl = [core.impl_run_ops(k, ops) for k, ops in cases_ops]
    mops = core.with_tapes(cases_ops, impl)
    lines = [core.model_run_line(k, ops) for k, ops in mops]
    model = [core.parse_model_run(l) for l in core.run_model(lines)]
    return list(zip(impl, model)), mops


def model_unwrap(items):
    """items: [(kbpk, key_block_text)] -> [("OK", header_text, key_text) | ("ERR", bucket)]"""
    lines = ["unwrap " + core.show(k) + " " + core.show(s) for k, s in items]
    out = []
    for l in core.run_model(lines):
        st, txt = core.parse_model(l)
        if st == "OK":
            h, key = txt.split(" ")
            out.append(("OK", h, key))
        else:
            out.append((st, txt))
    return out


def impl_unwrap(kbpk, s):
    try:
        h, key = tr31.unwrap(kbpk, s)
        return ("OK", core.show_header(h), core.show(key))
    except Exception as e:  # noqa: BLE001
        return ("ERR", core.bucket(e))
