"""C19 - TDES/AES ECB and CBC wrappers are exact, length-preserving inverses."""
from harness import core, oracles as o, framework as fw

KS = {"tdes": (8, 16, 24), "aes": (16, 24, 32)}


def check_impl(fn, args, out):
    if fn == "generate_kcv":
        key, n = args
        if len(key) not in (8, 16, 24):
            return None if out == ("ERR", "ValueError") else {"what": "kcv domain", "expected": "ValueError", "observed": list(out)}
        exp = o.E("des", key, bytes(8))[:n]
        return None if out == ("OK", core.show(exp)) else {"what": "KCV", "expected": core.show(exp), "observed": list(out)}
    direction, alg, mode = fn.split("_")
    kind = "des" if alg == "tdes" else "aes"
    bs = o.bsize(kind)
    if mode == "cbc":
        key, iv, data = args
    else:
        key, data = args
        iv = None
    dom = len(key) in KS[alg] and len(data) > 0 and len(data) % bs == 0 and (iv is None or len(iv) == bs)
    if not dom:
        return None if out == ("ERR", "ValueError") else {"what": "wrapper accepted or crashed outside its domain",
                                                          "expected": "ValueError", "observed": list(out)}
    if mode == "ecb":
        f = o.E if direction == "encrypt" else o.D
        exp = b"".join(f(kind, key, b) for b in o.blocks(data, bs))
    else:
        exp = (o.cbc_encrypt if direction == "encrypt" else o.cbc_decrypt)(kind, key, iv, data)
    if out != ("OK", core.show(exp)):
        return {"what": "wrapper differs from textbook %s" % mode, "expected": core.show(exp), "observed": list(out)}
    # inverse on the implementation itself
    inv = ("decrypt" if direction == "encrypt" else "encrypt") + "_" + alg + "_" + mode
    back = core.impl_call(inv, (key, iv, exp) if mode == "cbc" else (key, exp))
    if back != ("OK", core.show(data)):
        return {"what": "inverse does not restore the data", "expected": core.show(data), "observed": list(back)}
    return None


def run(ctx):
    rng = ctx.rng
    cases = []
    for alg in ("tdes", "aes"):
        bs = 8 if alg == "tdes" else 16
        for ks in KS[alg]:
            for nb in range(1, 7):
                for _ in range(ctx.n(2, 8)):
                    from harness import gens as G
                    key, iv, data = G.key(rng, ks), rng.randbytes(bs), rng.randbytes(nb * bs)
                    for d in ("encrypt", "decrypt"):
                        cases.append(("%s_%s_cbc" % (d, alg), (key, iv, data)))
                        cases.append(("%s_%s_ecb" % (d, alg), (key, data)))
        # rejection: every data length 0..3 blocks; bad key / iv sizes
        for n in range(0, 3 * bs + 1):
            key, iv, data = rng.randbytes(KS[alg][1]), rng.randbytes(bs), rng.randbytes(n)
            for d in ("encrypt", "decrypt"):
                cases.append(("%s_%s_cbc" % (d, alg), (key, iv, data)))
                cases.append(("%s_%s_ecb" % (d, alg), (key, data)))
        for ks in list(range(0, 41)) if ctx.thorough else (0, 1, 7, 9, 15, 17, 23, 25, 31, 33, 40):
            key, iv, data = rng.randbytes(ks), rng.randbytes(bs), rng.randbytes(2 * bs)
            cases.append(("encrypt_%s_cbc" % alg, (key, iv, data)))
            cases.append(("decrypt_%s_ecb" % alg, (key, data)))
        for ivl in (0, 1, bs - 1, bs + 1, 2 * bs):
            cases.append(("encrypt_%s_cbc" % alg, (rng.randbytes(KS[alg][0]), rng.randbytes(ivl), rng.randbytes(bs))))
            cases.append(("decrypt_%s_cbc" % alg, (rng.randbytes(KS[alg][0]), rng.randbytes(ivl), rng.randbytes(bs))))
    for ks in range(0, 33):
        for n in (0, 1, 2, 3, 8, 9):
            cases.append(("generate_kcv", (rng.randbytes(ks), n)))
    from harness import gens as G
    # every pattern of equal key components of a triple-length key (K1K1K3, K1K2K2, K1K2K1, KKK) and double-length KK
    c8 = [rng.randbytes(8) for _ in range(3)]
    for parts in ((0, 0, 2), (0, 1, 1), (0, 1, 0), (0, 0, 0), (0, 1, 2), (0, 0), (0, 1)):
        key = b"".join(c8[i] for i in parts)
        data, iv = rng.randbytes(24), rng.randbytes(8)
        cases += [("encrypt_tdes_ecb", (key, data)), ("decrypt_tdes_ecb", (key, data)), ("encrypt_tdes_cbc", (key, iv, data)),
                  ("decrypt_tdes_cbc", (key, iv, data)), ("generate_kcv", (key, 3))]
    # under ONE key: valid, rejected (bad length), valid again - nothing may be left buffered between calls
    for alg in ("tdes", "aes"):
        bs = 8 if alg == "tdes" else 16
        for ks in KS[alg]:
            key, iv = rng.randbytes(ks), rng.randbytes(bs)
            for d in ("encrypt", "decrypt"):
                for badlen in (1, bs - 1, bs + 1, 2 * bs + 3):
                    good = rng.randbytes(2 * bs)
                    cases += [("%s_%s_ecb" % (d, alg), (key, good)), ("%s_%s_ecb" % (d, alg), (key, rng.randbytes(badlen))),
                              ("%s_%s_ecb" % (d, alg), (key, good)),
                              ("%s_%s_cbc" % (d, alg), (key, iv, good)), ("%s_%s_cbc" % (d, alg), (key, iv, rng.randbytes(badlen))),
                              ("%s_%s_cbc" % (d, alg), (key, iv, good))]
    # DES weak / semi-weak key components (E_k = D_k for a weak k: still a legal key)
    for w in G.WEAK_DES:
        r8 = rng.randbytes(8)
        for key in (w, w + r8, r8 + w, w + w + r8, r8 + w + w):
            data, iv = G.special_bytes(rng, 16), rng.randbytes(8)
            cases += [("encrypt_tdes_ecb", (key, data)), ("decrypt_tdes_cbc", (key, iv, data)), ("generate_kcv", (key, 3))]
    # structured IVs and data: all-zero / all-FF / repeated blocks / IV equal to the first data block, every block count
    for alg in ("tdes", "aes"):
        bs = 8 if alg == "tdes" else 16
        for ks in KS[alg]:
            for nb in range(1, 5):
                for iv in (bytes(bs), b"\xff" * bs, None, None):
                    key = G.key(rng, ks)
                    data = G.special_bytes(rng, nb * bs) if iv is not None or rng.random() < 0.5 else rng.randbytes(nb * bs)
                    iv = iv if iv is not None else rng.choice([data[:bs], data[-bs:], G.special_bytes(rng, bs)])
                    for d in ("encrypt", "decrypt"):
                        cases.append(("%s_%s_cbc" % (d, alg), (key, iv, data)))
                        cases.append(("%s_%s_ecb" % (d, alg), (key, data)))
    from harness import gens
    cases = fw.with_history(rng, cases, gens.variants_generic(rng), fraction=0.1, limit=60)
    # large inputs (nothing buffered, dropped or re-chained at any internal chunk size): impl vs textbook oracle
    big = []
    for alg in ("tdes", "aes"):
        bs = 8 if alg == "tdes" else 16
        for nb in ((513, 4097, 8193) if not ctx.thorough else (513, 1025, 4096, 4097, 8192, 8193, 12300)):
            key, iv, data = rng.randbytes(KS[alg][-1]), rng.randbytes(bs), rng.randbytes(nb * bs)
            for d in ("encrypt", "decrypt"):
                big.append(("%s_%s_cbc" % (d, alg), (key, iv, data)))
                big.append(("%s_%s_ecb" % (d, alg), (key, data)))
    res = fw.call_result(
        cases, check_impl=check_impl, nontrivial=lambda fn, a, o_: o_[0] == "OK",
        rule="all key sizes x 1..6 blocks x random keys/IVs/data, both directions and modes; every data length 0..3 "
             "blocks; key sizes 0..40 and wrong IV sizes for rejection; KCV over key sizes 0..32; oracle = single-block "
             "OpenSSL ECB + hand chaining; non-trivial = distinct successful calls")
    fw.inplace_history(res, rng, [c for c in cases if core.impl_call(c[0], c[1])[0] == "OK"][:300], check_impl)
    for fn, args in big:
        out = core.impl_call(fn, args)
        v = check_impl(fn, args, out)
        res["evaluations"] += 1
        res["distribution"]["large:" + fn] = res["distribution"].get("large:" + fn, 0) + 1
        if v:
            v["input"] = {"fn": fn, "args": [core.show(a)[:200] + "..." for a in args], "blocks": len(args[-1]) // (8 if "tdes" in fn else 16)}
            v["expected"] = str(v["expected"])[:200]
            v["observed"] = str(v["observed"])[:200]
            res["violations"].append(v)
    # one very large call per wrapper (2^20 + 1 blocks: beyond any "reasonable volume" limit a hardening might add): accepted,
    # length preserved, inverse restores the data, first and last block as hand chaining gives them
    nb = 2 ** 20 + 1
    for alg in ("tdes", "aes"):
        bs = 8 if alg == "tdes" else 16
        kind = "des" if alg == "tdes" else "aes"
        key, iv, data = rng.randbytes(KS[alg][-1]), rng.randbytes(bs), rng.randbytes(nb * bs)
        for mode in ("ecb", "cbc"):
            a = (key, iv, data) if mode == "cbc" else (key, data)
            try:
                enc = core.FUNCS["encrypt_%s_%s" % (alg, mode)](*a)
                back = core.FUNCS["decrypt_%s_%s" % (alg, mode)](*(a[:-1] + (enc,)))
                first = o.E(kind, key, o.xor(data[:bs], iv) if mode == "cbc" else data[:bs])
                last = o.E(kind, key, o.xor(data[-bs:], enc[-2 * bs:-bs]) if mode == "cbc" else data[-bs:])
                ok = len(enc) == len(data) and back == data and enc[:bs] == first and enc[-bs:] == last
                obs = "length %d, inverse ok %s, first block ok %s, last block ok %s" % (len(enc), back == data, enc[:bs] == first, enc[-bs:] == last)
            except Exception as e:  # noqa: BLE001
                ok, obs = False, repr(e)[:200]
            res["evaluations"] += 2
            res["distribution"]["huge:%s_%s" % (alg, mode)] = nb
            if not ok:
                res["violations"].append({"what": "wrapper fails on a very large whole number of blocks", "expected": "encrypts %d blocks, inverse restores them" % nb,
                                          "observed": obs, "input": {"fn": "encrypt/decrypt_%s_%s" % (alg, mode), "blocks": nb, "key": key.hex(), "data": "rng.randbytes(%d)" % (nb * bs)}})
    if ctx.thorough:
        sub = [b for b in big if len(b[1][-1]) <= 513 * 16]
        r2 = fw.call_result(sub, check_impl=None)
        res["diffs"] += [{k: (str(v)[:200]) for k, v in d.items()} for d in r2["diffs"]]
    return res
