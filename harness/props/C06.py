"""C06 - PIN block decoders accept exactly the well-formed blocks and bind the PAN."""
from harness import core, oracles as o, framework as fw
from harness.props.pinblock_common import rnd_digits, call
from psec import pinblock

CTRL = {0: 0, 2: 2, 3: 3, 4: 4}


def wf(fmt, nib):
    """from-the-standard acceptance: returns the PIN or None"""
    if nib[0] != CTRL[fmt]:
        return None
    L = nib[1]
    if L < 4 or L > 12:
        return None
    fill = nib[2 + L:16]
    if fmt in (0, 2) and any(x != 15 for x in fill):
        return None
    if fmt == 3 and any(x < 10 for x in fill):
        return None
    if fmt == 4 and any(x != 10 for x in fill):
        return None
    if any(x > 9 for x in nib[2:2 + L]):
        return None
    return "".join(str(x) for x in nib[2:2 + L])


def deviate(rng, nib, k, lo=2, hi=16):
    nib = list(nib)
    for _ in range(k):
        pos = rng.randrange(lo, hi)
        cls = rng.choice("dAF")
        nib[pos] = rng.randrange(0, 10) if cls == "d" else (rng.randrange(10, 15) if cls == "A" else 15)
    return nib


def run(ctx):
    rng = ctx.rng
    viol, diffs, samples, dist = [], [], [], {}
    lines, expect = [], []
    evals = 0
    seen = set()

    def verdict(fmt, nib, pan, tail):
        nonlocal evals
        exp = wf(fmt, nib)
        if fmt in (0, 3):
            blk = o.from_nibbles(o.xor_nibbles(nib, o.pan_block(pan)))
            fn = "decode_pinblock_iso_%d" % fmt
            args = (blk, pan)
        elif fmt == 2:
            blk = o.from_nibbles(nib)
            fn, args = "decode_pinblock_iso_2", (blk,)
        else:
            blk = o.from_nibbles(nib) + tail
            fn, args = "decode_pin_field_iso_4", (blk,)
        got = core.impl_call(fn, args)
        evals += 1
        want = ("OK", core.show(exp)) if exp is not None else ("ERR", "ValueError")
        k = "%s:%s" % (fn, "accept" if exp is not None else "reject")
        dist[k] = dist.get(k, 0) + 1
        seen.add((fn, blk, pan))
        if got != want:
            viol.append({"what": "decoder verdict differs from the well-formedness predicate of the standard",
                         "input": {"fn": fn, "args": [core.show(a) for a in args]}, "expected": list(want), "observed": list(got)})
        if evals % 4 == 0:      # the block carried by a bytearray (e.g. a slice of a receive buffer): same verdict
            a2 = tuple(bytearray(a) if isinstance(a, bytes) else a for a in args)
            got2 = core.impl_call(fn, a2)
            evals += 1
            dist["carrier:bytearray"] = dist.get("carrier:bytearray", 0) + 1
            if got2 != want or bytes(a2[0]) != args[0]:
                viol.append({"what": "decoder verdict for a block passed as bytearray differs from the well-formedness predicate (or the buffer was modified)",
                             "input": {"fn": fn, "args": [core.show(a) for a in args], "types": ["bytearray"] + ["str"] * (len(args) - 1)},
                             "expected": list(want), "observed": list(got2)})
        lines.append(core.model_line(fn, args))
        expect.append(want)

    for fmt in (0, 2, 3, 4):
        for ctrl in range(16):
            for L in range(16):
                reps = ctx.n(2, 8) if ctrl == CTRL[fmt] else 1
                for _ in range(reps):
                    Le = min(max(L, 0), 14)
                    fillv = {0: 15, 2: 15, 4: 10}.get(fmt)
                    body = [rng.randrange(10) for _ in range(Le)] + [
                        (fillv if fillv is not None else rng.randrange(10, 16)) for _ in range(14 - Le)]
                    base = [ctrl, L] + body
                    pan = rnd_digits(rng, rng.randrange(13, 22))
                    tail = rng.randbytes(8)
                    for k in (0, 1, 2) if ctrl == CTRL[fmt] else (0,):
                        verdict(fmt, deviate(rng, base, k), pan, tail)
        for _ in range(ctx.n(150, 1500)):
            pan = rnd_digits(rng, rng.randrange(13, 22))
            verdict(fmt, o.nibbles(rng.randbytes(8)), pan, rng.randbytes(8))
        # a well-formed block of ANOTHER or the same format shifted by one or two nibbles (leading zeros / dropped
        # leading nibble): text-level slips such as lost leading zeros turn these into accepted blocks
        for L in range(3, 14):
            for f2 in (0, 2, 3, 4):
                fillv = {0: 15, 2: 15, 4: 10}.get(f2)
                wfb = [CTRL[f2], min(max(L, 0), 15)] + [rng.randrange(10) for _ in range(min(L, 12))]
                wfb += [(fillv if fillv is not None else rng.randrange(10, 16)) for _ in range(16 - len(wfb))]
                pan = rnd_digits(rng, rng.randrange(13, 22))
                tail = rng.randbytes(8)
                for shifted in ([0] + wfb[:15], [0, 0] + wfb[:14], wfb[1:] + [15], wfb[1:] + [rng.randrange(16)], [0] * 14 + wfb[:2],
                                [0] * 12 + wfb[:4], [0] * 10 + wfb[:6]):
                    verdict(fmt, shifted, pan, tail)
        # every single-nibble substitution (all 16 values at all 16 positions) of a well-formed block of every length
        for L in range(4, 13):
            fillv = {0: 15, 2: 15, 4: 10}.get(fmt)
            base = [CTRL[fmt], L] + [rng.randrange(10) for _ in range(L)] + [
                (fillv if fillv is not None else rng.randrange(10, 16)) for _ in range(14 - L)]
            pan = rnd_digits(rng, rng.randrange(13, 22))
            tail = rng.randbytes(8)
            for pos in range(16):
                for val in range(16):
                    if val != base[pos]:
                        verdict(fmt, base[:pos] + [val] + base[pos + 1:], pan, tail)
        # right-size requirement and PAN validity
    for fn, args in (("decode_pinblock_iso_0", (b"\x04\x12\x34\xff\xff\xff\xff", "5555555551234567")),
                     ("decode_pinblock_iso_0", (bytes(9), "5555555551234567")),
                     ("decode_pinblock_iso_0", (bytes(8), "555555555123")),
                     ("decode_pinblock_iso_0", (bytes(8), "555555555123456７")),
                     ("decode_pinblock_iso_3", (bytes(8), "55555555512 4567")),
                     ("decode_pinblock_iso_3", (bytes(7), "5555555551234567")),
                     ("decode_pinblock_iso_2", (bytes(7),)), ("decode_pinblock_iso_2", (bytes(16),)),
                     ("decode_pin_field_iso_4", (bytes(8),)), ("decode_pin_field_iso_4", (bytes(17),)), ("decode_pin_field_iso_4", (b"",))):
        got = core.impl_call(fn, args)
        evals += 1
        if got != ("ERR", "ValueError"):
            viol.append({"what": "wrong-size block / invalid PAN not rejected with ValueError",
                         "input": {"fn": fn, "args": [core.show(a) for a in args]}, "expected": "ValueError", "observed": list(got)})
        lines.append(core.model_line(fn, args))
        expect.append(("ERR", "ValueError"))
    # PAN binding: decoding with a PAN whose bound digits differ never returns the original PIN
    nbind = 0
    for _ in range(ctx.n(300, 3000)):
        pin = rnd_digits(rng, rng.randrange(4, 13))
        pan = rnd_digits(rng, rng.randrange(13, 22))
        pos = rng.randrange(len(pan) - 13, len(pan) - 1)
        pan2 = pan[:pos] + str((int(pan[pos]) + rng.randrange(1, 10)) % 10) + pan[pos + 1:]
        if rng.random() < 0.3:
            pan2 = rnd_digits(rng, rng.randrange(13, 22))
            if o.pan_block(pan2) == o.pan_block(pan):
                continue
        nbind += 1
        # (format 3 is deliberately absent: a PAN digit under a random A-F fill nibble is not bound,
        #  and the property claims binding for formats 0 and 4 only)
        for enc, dec_ in ((pinblock.encode_pinblock_iso_0, pinblock.decode_pinblock_iso_0),):
            r = call(dec_, enc(pin, pan), pan2)
            evals += 1
            if r == ("OK", pin):
                viol.append({"what": "block decoded to the original PIN under a different PAN",
                             "input": {"fn": dec_.__name__, "args": [pin, pan, pan2]}, "expected": "not " + pin, "observed": repr(r)})
        key = rng.randbytes(rng.choice((16, 24, 32)))
        p4 = rnd_digits(rng, rng.randrange(1, 20))
        q4 = rnd_digits(rng, rng.randrange(1, 20))
        if rng.random() < 0.4 and len(p4) >= 13:
            # the same digits with leading zeros moved to the end, or one leading zero dropped
            z = rng.randrange(1, 4)
            core_digits = "".join(rng.choice("123456789") for _ in range(len(p4) - z))
            p4 = "0" * z + core_digits
            q4 = rng.choice([core_digits + "0" * z, p4[1:], core_digits])
            if rng.random() < 0.5:
                p4, q4 = q4, p4            # both directions: enciphered under the short form, deciphered under the zero-padded one
        elif rng.random() < 0.3 and len(p4) <= 17 and not p4.startswith("0"):
            q4 = "0" * rng.randrange(1, 20 - len(p4)) + p4      # the same number left-padded with zeros (another PAN: its length differs)
        if o.pan_field4_nibbles(p4) != o.pan_field4_nibbles(q4):
            r = call(pinblock.decipher_pinblock_iso_4, key, pinblock.encipher_pinblock_iso_4(key, pin, p4), q4)
            evals += 1
            if r == ("OK", pin):
                viol.append({"what": "format 4 block deciphered to the original PIN under a different PAN",
                             "input": {"fn": "decipher_4", "args": [key.hex(), pin, p4, q4]}, "expected": "not " + pin, "observed": repr(r)})
    dist["pan_binding_pairs"] = nbind
    for line, exp, got in zip(lines, expect, core.run_model(lines)):
        m = core.parse_model(got)
        if m != exp:
            diffs.append({"request": line, "standard_verdict": list(exp), "model": list(m)})
        elif len(samples) < 6:
            samples.append({"request": line, "standard_verdict": list(exp), "model": list(m)})
    from harness.props.pinblock_common import threaded_fixed_pairs
    dist["format_0_3_calls_in_tight_threaded_loops"] = threaded_fixed_pairs(ctx.rng, viol, iters=ctx.n(12000, 50000))
    evals += dist["format_0_3_calls_in_tight_threaded_loops"]
    from harness.props.pinblock_common import threaded_encoders
    dist["decoder_calls_under_threads"] = threaded_encoders(ctx.rng, viol)
    evals += dist["decoder_calls_under_threads"]
    from harness.props.pinblock_common import after_rejected_calls
    dist["calls_after_rejected_calls"] = after_rejected_calls(ctx.rng, viol)
    evals += dist["calls_after_rejected_calls"]
    return {"evaluations": evals, "distinct_nontrivial": len(seen), "samples": samples, "distribution": dist,
            "diffs": diffs, "violations": viol,
            "rule": "four decoders: every control nibble x every length nibble x well-formed bodies with 0,1,2 nibble-class "
                    "deviations (digit / A-E / F) + uniformly random blocks + wrong sizes / invalid PANs; verdict of the "
                    "implementation AND of the model compared with the standard's well-formedness predicate; PAN pairs "
                    "differing in a bound digit for formats 0 and 4; distinct_nontrivial = distinct (decoder, block, PAN)"}
