"""C04 - PIN block encode then decode returns the PIN (formats 0, 2, 3, 4)."""
from harness import core, oracles as o, framework as fw
from harness.props.pinblock_common import rnd_digits, call, fmt3_choices, biased_entropy
from psec import pinblock


def run(ctx):
    rng = ctx.rng
    viol, diffs, samples = [], [], []
    dist = {}
    model_lines, model_expect = [], []
    evals = 0
    seen = set()

    def bump(k):
        dist[k] = dist.get(k, 0) + 1

    def bad(what, inp, exp, obs):
        viol.append({"what": what, "input": inp, "expected": exp, "observed": obs})

    pins = []
    if ctx.thorough:
        pins += ["%04d" % i for i in range(10000)]
    else:
        pins += ["%04d" % i for i in range(0, 10000, 101)]
    for L in range(4, 13):
        pins += [rnd_digits(rng, L) for _ in range(ctx.n(12, 60))]
    pins += ["0000", "9999", "000000000000", "999999999999"]
    for pin in pins:
        pan = rnd_digits(rng, rng.randrange(13, 25))
        pan4 = rnd_digits(rng, rng.randrange(1, 20))
        key = rng.randbytes(rng.choice((16, 24, 32)))
        seen.add((pin, pan, pan4))
        # format 0
        b0 = call(pinblock.encode_pinblock_iso_0, pin, pan)
        evals += 1
        if b0[0] != "OK" or call(pinblock.decode_pinblock_iso_0, b0[1], pan) != ("OK", pin):
            bad("format 0 round trip", {"fn": "iso_0", "args": [pin, pan]}, pin, repr(b0))
        else:
            model_lines.append(core.model_line("encode_pinblock_iso_0", (pin, pan)))
            model_expect.append("OK " + core.show(b0[1]))
            model_lines.append(core.model_line("decode_pinblock_iso_0", (b0[1], pan)))
            model_expect.append("OK " + core.show(pin))
        bump("iso0")
        # format 2
        b2 = call(pinblock.encode_pinblock_iso_2, pin)
        evals += 1
        if b2[0] != "OK" or call(pinblock.decode_pinblock_iso_2, b2[1]) != ("OK", pin):
            bad("format 2 round trip", {"fn": "iso_2", "args": [pin]}, pin, repr(b2))
        else:
            model_lines.append(core.model_line("encode_pinblock_iso_2", (pin,)))
            model_expect.append("OK " + core.show(b2[1]))
        bump("iso2")
        # format 3: several draws of the random fill
        for _ in range(ctx.n(2, 4)):
            b3 = call(pinblock.encode_pinblock_iso_3, pin, pan)
            evals += 1
            if b3[0] != "OK" or call(pinblock.decode_pinblock_iso_3, b3[1], pan) != ("OK", pin):
                bad("format 3 round trip", {"fn": "iso_3", "args": [pin, pan, repr(b3)]}, pin, repr(b3))
                continue
            choices, fill = fmt3_choices(b3[1], pin, pan)
            model_lines.append(core.model_line("encode_pinblock_iso_3", (pin, pan, choices)))
            model_expect.append("OK " + core.show(b3[1]))
            model_lines.append(core.model_line("decode_pinblock_iso_3", (b3[1], pan)))
            model_expect.append("OK " + core.show(pin))
            bump("iso3")
        # format 4 field
        f4 = call(pinblock.encode_pin_field_iso_4, pin)
        evals += 1
        if f4[0] != "OK" or call(pinblock.decode_pin_field_iso_4, f4[1]) != ("OK", pin):
            bad("format 4 field round trip", {"fn": "field_4", "args": [pin]}, pin, repr(f4))
        else:
            model_lines.append(core.model_line("encode_pin_field_iso_4", (pin, f4[1][8:])))
            model_expect.append("OK " + core.show(f4[1]))
        bump("field4")
        # format 4 enciphered
        e4 = call(pinblock.encipher_pinblock_iso_4, key, pin, pan4)
        evals += 1
        if e4[0] != "OK" or call(pinblock.decipher_pinblock_iso_4, key, e4[1], pan4) != ("OK", pin):
            bad("format 4 encipher/decipher round trip", {"fn": "encipher_4", "args": [key.hex(), pin, pan4]}, pin, repr(e4))
        else:
            # recover the os.urandom(8) tail through the independent reference
            pf = o.D("aes", key, o.xor(o.D("aes", key, e4[1]), o.from_nibbles(o.pan_field4_nibbles(pan4))))
            model_lines.append(core.model_line("encipher_pinblock_iso_4", (key, pin, pan4, pf[8:])))
            model_expect.append("OK " + core.show(e4[1]))
            model_lines.append(core.model_line("decipher_pinblock_iso_4", (key, e4[1], pan4)))
            model_expect.append("OK " + core.show(pin))
        bump("encipher4")
    # PAN neighbours: the same PIN under PANs that differ in exactly one of the last 13 digits (or only in length), one
    # after the other in one process - a block must always decode under the PAN it was built with
    for _ in range(ctx.n(6, 40)):
        pin = rnd_digits(rng, rng.randrange(4, 13))
        pan = rnd_digits(rng, rng.randrange(13, 20))
        neigh = [pan]
        for pos in range(len(pan) - 13, len(pan)):
            neigh.append(pan[:pos] + str((int(pan[pos]) + rng.randrange(1, 10)) % 10) + pan[pos + 1:])
        neigh += [rnd_digits(rng, 3) + pan, pan[1:] if len(pan) > 13 else "7" + pan]
        for fmt, enc, dec_ in ((0, pinblock.encode_pinblock_iso_0, pinblock.decode_pinblock_iso_0),
                               (3, pinblock.encode_pinblock_iso_3, pinblock.decode_pinblock_iso_3)):
            for q in neigh:
                e0 = call(enc, pin, pan)
                if e0[0] == "OK":
                    call(dec_, e0[1], pan)          # leave whatever state a decode under `pan` leaves
                evals += 1
                e1 = call(enc, pin, q)
                r = call(dec_, e1[1], q) if e1[0] == "OK" else e1
                if r != ("OK", pin):
                    bad("format %d round trip under a PAN neighbouring an earlier one" % fmt, {"fn": "iso_%d" % fmt, "args": [pin, pan, q]}, pin, repr(r))
        key = rng.randbytes(16)
        for q in [rnd_digits(rng, 13)] + ["0" * z + "".join(rng.choice("123456789") for _ in range(n - z)) for n in (13, 16, 19) for z in (1, 2, 3)]:
            evals += 1
            e4 = call(pinblock.encipher_pinblock_iso_4, key, pin, q)
            r = call(pinblock.decipher_pinblock_iso_4, key, e4[1], q) if e4[0] == "OK" else e4
            if r != ("OK", pin):
                bad("format 4 round trip (PAN with leading zeros)", {"fn": "encipher_4", "args": [key.hex(), pin, q]}, pin, repr(r))
    bump("pan_neighbours")
    # many format 3 / format 4 encodings of mixed PIN lengths in one process (implementation only)
    for i in range(ctx.n(6000, 40000)):
        pin = rnd_digits(rng, rng.randrange(4, 13))
        pan = rnd_digits(rng, 16)
        evals += 1
        b3 = call(pinblock.encode_pinblock_iso_3, pin, pan)
        if b3[0] != "OK" or call(pinblock.decode_pinblock_iso_3, b3[1], pan) != ("OK", pin):
            bad("format 3 round trip (call #%d of a mixed-length sequence)" % i, {"fn": "iso_3", "args": [pin, pan, "call %d" % i]}, pin, repr(b3))
            break
        if i % 4 == 0:
            f4 = call(pinblock.encode_pin_field_iso_4, pin)
            if f4[0] != "OK" or call(pinblock.decode_pin_field_iso_4, f4[1]) != ("OK", pin):
                bad("format 4 field round trip (sequence)", {"fn": "field_4", "args": [pin, "call %d" % i]}, pin, repr(f4))
                break
    bump("iso3_sequence")
    from harness.props.pinblock_common import threaded_fixed_pairs
    dist["format_0_3_calls_in_tight_threaded_loops"] = threaded_fixed_pairs(ctx.rng, viol, iters=ctx.n(12000, 50000))
    evals += dist["format_0_3_calls_in_tight_threaded_loops"]
    from harness.props.pinblock_common import threaded_encoders
    dist["encoder_calls_under_threads"] = threaded_encoders(ctx.rng, viol)
    evals += dist["encoder_calls_under_threads"]
    from harness.props.pinblock_common import after_rejected_calls
    dist["calls_after_rejected_calls"] = after_rejected_calls(ctx.rng, viol)
    evals += dist["calls_after_rejected_calls"]
    bv, bcalls = biased_entropy(ctx, "roundtrip")
    viol += bv
    evals += bcalls
    dist["extreme_fill_calls"] = bcalls
    for line, exp, got in zip(model_lines, model_expect, core.run_model(model_lines)):
        if got != exp:
            diffs.append({"request": line, "impl": exp, "model": got})
        elif len(samples) < 6 and ("iso_3" in line or "iso_4" in line):
            samples.append({"request": line, "impl": exp, "model": got})
    return {"evaluations": evals, "distinct_nontrivial": len(seen), "samples": samples, "distribution": dist,
            "diffs": diffs, "violations": viol, "exhaustive": False,
            "rule": "PINs: every 101st (all 10^4 in thorough) four-digit PIN + random PINs of every length 4..12 x PAN lengths "
                    "13..24 / 1..19 x AES key sizes; formats 0,2,3 (several random-fill draws),4 field,4 enciphered: impl "
                    "encode->decode must return the PIN; the model, given the fill recovered from the impl output, must reproduce "
                    "the impl block byte for byte and decode it; distinct_nontrivial = distinct (PIN, PAN, PAN4) triples"}
