"""C15 - TR-31 parsing fails only with its documented errors (and never hangs)."""
import signal

from harness import core, framework as fw
from harness.props import tr31_common as t
from psec import tr31

HOSTILE = ["é", "\x00", "\n", "\x1f", "\x7f", "\x80", "ÿ", "０", "٣", "\ud800", "\U0001f600", "ǅ", "ß", " ", "\t"]
LEGACY_WITNESS = (b"1" * 16, "B0056P0TE00N0100PB08" + "éééé" + "0" * 32)


class Timeout(Exception):
    pass


def _alarm(signum, frame):
    raise Timeout()


TIMEOUTS = [0]


def guarded(f, *a):
    if TIMEOUTS[0] >= 3:
        # three calls already ran into the 5 s limit (each is reported): stop feeding the implementation, so that the
        # check itself ends - the remaining inputs count as not explored
        return "OK"
    signal.signal(signal.SIGALRM, _alarm)
    signal.setitimer(signal.ITIMER_REAL, 5.0)
    try:
        f(*a)
        return "OK"
    except Timeout:
        TIMEOUTS[0] += 1
        return "Other:Timeout"
    except Exception as e:  # noqa: BLE001
        return core.bucket(e)
    finally:
        signal.setitimer(signal.ITIMER_REAL, 0)


def length_positions(g):
    """positions of every character that belongs to a length / count field: the 4-digit block length, the
    2-digit block count, and per optional block its 2-hex length or its extended length-of-length and length"""
    pos = [1, 2, 3, 4, 12, 13]
    try:
        n = int(g[12:14])
        i = 16
        for _ in range(n):
            pos += [i + 2, i + 3]
            ln = int(g[i + 2:i + 4], 16)
            if ln == 0:
                ll = int(g[i + 4:i + 6], 16)
                pos += list(range(i + 4, i + 6 + 2 * ll))
                ln = int(g[i + 6:i + 6 + 2 * ll], 16)
            i += ln
    except ValueError:
        pass
    return [p for p in pos if p < len(g)]


def unicode_digit_mutations(g, hl, rng, full):
    """value-preserving Unicode decimal digits: at EVERY digit of a length / count field (always), and at the
    other digit positions of the header and block section (all in thorough, a sample in quick)"""
    out = []
    lp = set(length_positions(g))
    others = [p for p in range(0, min(hl + 2, len(g))) if g[p].isdigit() and p not in lp]
    if not full:
        others = rng.sample(others, min(len(others), 12))
    for p in sorted(lp) + others:
        if g[p].isdigit():
            for base in (0xFF10, 0x0660, 0x1D7D8):
                out.append(g[:p] + chr(base + int(g[p])) + g[p + 1:])
    return out


# characters whose upper() / lower() / casefold() is ASCII or longer than one character (U+FB00 'ff' ligature -> "FF",
# Kelvin sign -> "k", long s -> "S", dotless i -> "I"): a test on the case-converted text lets them through
CASE_EXPANDING = ["\ufb00", "\ufb01", "\u212a", "\u017f", "\u0131", "\u0149"]


def mutations(rng, g, hl):
    n = len(g)
    out = []
    structural = sorted(set([0, 1, 4, 5, 7, 8, 9, 11, 12, 13, 14, 15, 16, 17, 18, 19, 20, 21, 22, hl - 1, hl, hl + 1, n - 1]))
    for p in structural:
        if 0 <= p < n:
            for ch in rng.sample(HOSTILE, 4) + [rng.choice("0123456789ABCDEFGZz"), "0", "F"]:
                out.append(g[:p] + ch + g[p + 1:])
            for ch in CASE_EXPANDING[:3]:
                out.append(g[:p] + ch + g[p + 1:])
            out.append(g[:p])
            out.append(g[:p] + rng.choice(HOSTILE) + g[p:])
    # block count / length field games
    for cnt in ("00", "01", "02", "09", "10", "50", "98", "99", "9X", "-1", "٣٣"):
        out.append(g[:12] + cnt + g[14:])
    for lf in ("0000", "9999", "0016", "%04d" % (n + 8), "%04d" % max(0, n - 8), "12AB", "１２３４"):
        out.append(g[0] + lf + g[5:])
    # extended lengths of every length-of-length, pad blocks with hostile data, oversized counts
    for ll in (0, 1, 2, 3, 4, 8, 127, 255):
        llh = "%02X" % ll
        for body in ("", "0", "000A", "FFFF", "F" * (2 * ll), "0" * (2 * ll - 1) + "A" if ll else ""):
            out.append(g[:12] + "01" + g[14:16] + "KS00" + llh + body + g[hl:])
    for pbdata in ("é", "\x00\x01", "ÿÿÿÿ", "\ud800", "    ", "~~~~"):
        blk = "PB" + "%02X" % (4 + len(pbdata)) + pbdata
        out.append(g[:12] + "01" + g[14:16] + blk + g[hl:])
        out.append(fix(g[:12] + "01" + g[14:16] + blk + g[hl:]))
        out.append(fix(g[:12] + "02" + g[14:16] + "pb04" + blk + g[hl:]))
    for pid in ("pb", "Pb", "pB", "PB"):
        for pbdata in ("é", "ÿÿÿÿ", "\x80", "０"):
            blk = pid + "%02X" % (4 + len(pbdata)) + pbdata
            out.append(fix(g[:12] + "01" + g[14:16] + blk + g[hl:]))
            out.append(fix(g[:12] + "02" + g[14:16] + "KS051" + blk + g[hl:]))
    for bid in ("**", "é1", "K", "\x00\x00", "Pb", "pB"):
        out.append(fix(g[:12] + "01" + g[14:16] + bid + "08" + "1234" + g[hl:]))
    return out


def blank_mutations(g, hl, v):
    """white space inside the hex section (bytes.fromhex skips ASCII white space between pairs): whole pairs of the MAC
    and of the key data replaced by blanks - the decoded MAC / key data then have another size than the text suggests"""
    n = len(g)
    ml2 = 2 * t.MACLEN[v]
    bs2 = 2 * t.BS[v]
    out = []
    for ws in (" ", "\t", "\n", "\r", "\x0b", "\x0c"):
        out.append(g[:n - ml2] + ws * ml2)                      # whole MAC
        for k in (2, 4, ml2 - 2):
            if 0 < k < ml2:
                out.append(g[:n - k] + ws * k)                     # MAC tail
                out.append(g[:n - ml2] + ws * k + g[n - ml2 + k:])  # MAC head
        out.append(g[:hl] + ws * bs2 + g[hl + bs2:])             # one cipher block of key data
        out.append(g[:hl] + ws * 2 + g[hl + 2:])                 # one byte of key data
        out.append(g[:hl] + ws * (n - ml2 - hl) + g[n - ml2:])   # all key data
    out.append(g[:n - ml2] + " \t" * (ml2 // 2))
    return out


def fix(s):
    return s[0] + "%04d" % len(s) + s[5:] if 5 <= len(s) <= 9999 else s


def run(ctx):
    rng = ctx.rng
    viol, diffs, dist, samples = [], [], {}, []
    unwrap_items, load_items, wrap_items = [], [], []
    unwrap_items.append(LEGACY_WITNESS)
    for v in "ABCD":
        for bi in range(ctx.n(3, 10)):
            c = t.gen_case(rng, version=v, profile=("boundary" if bi == 0 else rng.choice(["none", "few", "boundary"])), keylen=rng.choice([0, 8, 16, 24]))
            if bi == 0:
                c["blocks"] = [("X1", t.rstr(rng, 260, t.PRINT)), ("X2", t.rstr(rng, 7, t.PRINT))]
            h = t.impl_header(c)
            try:
                g = tr31.wrap(c["kbpk"], h, c["key"], c["mask"])
            except tr31.HeaderError:
                continue
            hl = tr31.Header().load(g)
            muts = mutations(rng, g, hl)
            if not ctx.thorough:
                muts = rng.sample(muts, min(len(muts), 90))
            muts += unicode_digit_mutations(g, hl, rng, ctx.thorough)
            blanks = blank_mutations(g, hl, v)
            for s in blanks:
                unwrap_items.append((c["kbpk"], s))          # always under the genuine KBPK
            for s in muts:
                kb = c["kbpk"] if rng.random() < 0.8 else rng.randbytes(rng.randrange(0, 41))
                unwrap_items.append((kb, s))
                if rng.random() < 0.3:
                    load_items.append(s)
                if rng.random() < 0.15:
                    wrap_items.append((kb, s[:hl], rng.randbytes(rng.choice([0, 8, 16, 5000])), rng.choice([None, -1, 0, 40, 6000])))
    # constructed from scratch: header + arbitrary blocks (odd and even lengths, short and extended form, no pad block)
    # + a hex tail that brings the total to a block multiple, with a correct length field
    for _ in range(ctx.n(250, 2500)):
        v = rng.choice("ABCD")
        bs = t.BS[v]
        nb = rng.randrange(0, 4)
        body = ""
        for _ in range(nb):
            data = t.rstr(rng, rng.choice([0, 1, 2, 3, 4, 5, 7, 8, 251, 252, 300]), t.PRINT)
            bid = t.rstr(rng, 2, t.ALNUM)
            if rng.random() < 0.25 or len(data) + 4 > 255:
                ll = rng.choice([1, 2, 2, 3])
                body += bid + "00" + "%02X" % ll + ("%0*X" % (2 * ll, len(data) + 6 + 2 * ll))[-2 * ll:] + data
            else:
                body += bid + "%02X" % (len(data) + 4) + data
        hdr = v + "0000" + t.rstr(rng, 7, t.ALNUM) + "%02d" % nb + "00" + body
        total = len(hdr) + rng.choice([2 * t.MACLEN[v], 2 * t.MACLEN[v] + 2 * bs, 2 * t.MACLEN[v] + 4 * bs, 8, 2])
        total += (-total) % bs
        tail_alpha = rng.choice(["0123456789ABCDEF", "0123456789abcdef", "0123456789ABCDEF "])
        s_ = hdr + t.rstr(rng, max(0, total - len(hdr)), tail_alpha)
        s_ = fix(s_)
        unwrap_items.append((rng.randbytes(rng.choice(t.KBPK_SIZES[v])), s_))
    # serialisation of headers whose optional block data length sits around the short / extended boundary
    for v in "ABCD":
        for dl in range(246, 262):
            hs = v + "0000P0TE00N0100" + "KS0002" + "%04X" % (dl + 10) + t.rstr(rng, dl, t.ALNUM)
            wrap_items.append((rng.randbytes(t.KBPK_SIZES[v][-1]), hs, rng.randbytes(16), None))
            if dl + 4 <= 255:
                hs2 = v + "0000P0TE00N0100" + "KS" + "%02X" % (dl + 4) + t.rstr(rng, dl, t.ALNUM)
                wrap_items.append((rng.randbytes(t.KBPK_SIZES[v][-1]), hs2, rng.randbytes(16), None))
    # one huge optional block (only expressible with a length-of-length of 3 or more): around 2^16 characters, where the
    # two-byte extended length of the serialiser overflows; load accepts, wrap must answer with the module's error
    for L in ((65525, 65526, 65535, 65536) if not ctx.thorough else (65520, 65525, 65526, 65530, 65535, 65536, 65537, 70000, 131072)):
        v = rng.choice("ABCD")
        hs = v + "0000P0TE00N0100" + "KS0003" + "%06X" % (L + 12) + t.rstr(rng, L, t.ALNUM)
        wrap_items.append((rng.randbytes(t.KBPK_SIZES[v][-1]), hs, rng.randbytes(16), None))
        load_items.append(hs)
    # the optional block ids the standard defines, with well-formed contents (code that interprets a block - a KBPK check value
    # in KP, a key set identifier in KS, a time stamp in TS ...) x every KBPK length 0..40, valid and invalid
    STD = [("KP", "00A1B2"), ("KP", "00A1B2C3"), ("KP", "01A1B2C3D4"), ("KS", "00604B120F9292800000"), ("KV", "0001"), ("TS", "20261001120000Z"),
           ("TC", "20261001120000Z"), ("HM", "21"), ("CT", "00"), ("AL", "0100"), ("BI", "0012345"), ("DA", "01P0TE00N"), ("IK", "1234567890123456"),
           ("LB", "label"), ("PK", "00A1B2C3"), ("WP", "0000"), ("KC", "00A1B2C3"), ("FL", "0000")]
    for v in "ABCD":
        for bid, data in STD:
            c = t.gen_case(rng, version=v, profile="none", keylen=16, mask=None)
            c["blocks"] = [(bid, data)]
            try:
                g = tr31.wrap(c["kbpk"], t.impl_header(c), c["key"])
            except Exception:  # noqa: BLE001
                continue
            unwrap_items.append((c["kbpk"], g))
            for n in (0, 1, 7, 9, 15, 17, 23, 25, 31, 33, 40):
                unwrap_items.append((rng.randbytes(n), g))
                wrap_items.append((rng.randbytes(n), g[: tr31.Header().load(g)], rng.randbytes(16), None))
    # every KBPK length 0..40 against valid blocks of each version
    for v in "ABCD":
        c = t.gen_case(rng, version=v, profile="few", keylen=16, mask=None)
        g = tr31.wrap(c["kbpk"], t.impl_header(c), c["key"])
        for n in range(0, 41):
            unwrap_items.append((rng.randbytes(n), g))
            wrap_items.append((rng.randbytes(n), g[:16], rng.randbytes(16), None))
    # random Unicode
    for _ in range(ctx.n(300, 3000)):
        n = rng.choice([0, 1, 5, 15, 16, 17, 24, 40, 64, 200])
        alpha = rng.choice(["ABCD0123456789PB", t.ALNUM, t.PRINT + "".join(HOSTILE)])
        s = t.rstr(rng, n, alpha)
        if rng.random() < 0.5 and n >= 16:
            s = rng.choice("ABCD") + "%04d" % n + s[5:]
        unwrap_items.append((rng.randbytes(rng.choice([0, 8, 16, 24, 32, rng.randrange(0, 41)])), s))
        load_items.append(s)
    evals = 0
    seen = set()
    # ---- implementation: only Ok or the module's errors; never hangs
    for kb, s in unwrap_items:
        b = guarded(tr31.unwrap, kb, s)
        evals += 1
        seen.add(("U", kb, s))
        dist["unwrap:" + b] = dist.get("unwrap:" + b, 0) + 1
        if b not in ("OK", "PsecError"):
            viol.append({"what": "unwrap escaped with a foreign exception / hang", "input": {"kbpk": kb.hex(), "string": s},
                         "expected": "Ok or HeaderError/KeyBlockError", "observed": b})
    def load_then_str(x):
        h = tr31.Header()
        h.load(x)
        str(h)
        h.dump(16)

    for kb_, hs_, _, _ in wrap_items:
        b = guarded(load_then_str, hs_)
        evals += 1
        if b not in ("OK", "PsecError"):
            viol.append({"what": "Header.load + str()/dump() escaped with a foreign exception", "input": {"string": hs_},
                         "expected": "Ok or HeaderError", "observed": b})
    for s in load_items:
        b = guarded(tr31.Header().load, s)
        b2 = guarded(tr31.KeyBlock, b"", s)
        evals += 2
        seen.add(("L", s))
        dist["load:" + b] = dist.get("load:" + b, 0) + 1
        for x in (b, b2):
            if x not in ("OK", "PsecError"):
                viol.append({"what": "Header.load / KeyBlock(kbpk, str) escaped with a foreign exception", "input": {"string": s},
                             "expected": "Ok or HeaderError", "observed": x})
    for kb, hs, key, mask in wrap_items:
        b = guarded(tr31.wrap, kb, hs, key, mask)
        evals += 1
        seen.add(("W", kb, hs, len(key), mask))
        dist["wrap:" + b] = dist.get("wrap:" + b, 0) + 1
        if b not in ("OK", "PsecError"):
            viol.append({"what": "wrap escaped with a foreign exception", "input": {"kbpk": kb.hex(), "header": hs, "key_len": len(key), "mask": mask},
                         "expected": "Ok or HeaderError/KeyBlockError", "observed": b})
    # one KeyBlock object after a rejected call (header stage / MAC stage / wrap with a bad header): the next call must
    # again end with a result or the module's error - never hang (a lock or busy flag left behind), never another exception
    for v in "ABCD":
        c = t.gen_case(rng, version=v, profile="few", keylen=16, mask=None)
        g = tr31.wrap(c["kbpk"], t.impl_header(c), c["key"])
        for bad in (g[:12] + "0X" + g[14:], g[:-1] + ("0" if g[-1] != "0" else "1"), "E" + g[1:], g[:20], g[:16] + "**" + g[18:]):
            kbo = tr31.KeyBlock(c["kbpk"])
            first = guarded(kbo.unwrap, bad)
            again = guarded(kbo.unwrap, g)
            third = guarded(kbo.wrap, c["key"])
            evals += 3
            for what, b, want in (("rejected unwrap", first, ("PsecError",)), ("unwrap of a genuine block after a rejected one", again, ("OK",)),
                                  ("wrap after a rejected unwrap", third, ("OK", "PsecError"))):
                if b not in want:
                    viol.append({"what": "one KeyBlock, " + what + ": foreign exception / hang", "input": {"kbpk": c["kbpk"].hex(), "string": bad, "then": g},
                                 "expected": " or ".join(want), "observed": b})
    if TIMEOUTS[0]:
        # the implementation hangs on some inputs (reported above): do not re-execute it for the correspondence
        return {"evaluations": evals, "distinct_nontrivial": len(seen), "samples": [{"note": "stopped after %d calls ran into the 5 s limit" % TIMEOUTS[0]}],
                "distribution": dist, "diffs": diffs, "violations": viol,
                "rule": "implementation calls under a 5 s limit; the run stops feeding the implementation after three time-outs"}
    # ---- correspondence (bucket only): unwrap and load on the model
    mu = t.model_unwrap(unwrap_items)
    for (kb, s), m in zip(unwrap_items, mu):
        i = t.impl_unwrap(kb, s)
        ib = i[0] if i[0] == "OK" else i[1]
        mb = m[0] if m[0] == "OK" else m[1]
        if ib != mb:
            diffs.append({"op": "unwrap", "kbpk": kb.hex(), "string": s[:120], "impl": ib, "model": mb})
        elif len(samples) < 5 and rng.random() < 0.01:
            samples.append({"op": "unwrap", "string": s[:80], "bucket": ib})
    lines = [core.model_run_line(b"", [("L", s)]) for s in load_items]
    for s, l in zip(load_items, core.run_model(lines)):
        mh, mouts = core.parse_model_run(l)
        ih, iouts = core.impl_run_ops(b"", [("L", s)])
        if (mh, mouts) != (ih, iouts):
            diffs.append({"op": "load", "string": s[:120], "impl": [ih[:60], iouts], "model": [mh[:60], mouts]})
    # wrap with a header string: model wrap_str, tape recovered from the impl output when it succeeded
    wres = []
    for kb, hs, key, mask in wrap_items:
        try:
            wres.append(("OK", tr31.wrap(kb, hs, key, mask)))
        except Exception as e:  # noqa: BLE001
            wres.append(("ERR", core.bucket(e)))
    oks = [(kb, key, w[1]) for (kb, hs, key, mask), w in zip(wrap_items, wres) if w[0] == "OK"]
    tapes = iter(core.recover_tapes(oks))
    wl = []
    for (kb, hs, key, mask), w in zip(wrap_items, wres):
        tape = (next(tapes) or b"") if w[0] == "OK" else b""
        wl.append("wrap_str %s %s %s %s %s" % (core.show(kb), core.show(hs), core.show(key), core.show(mask), core.show(tape)))
    for (kb, hs, key, mask), w, l in zip(wrap_items, wres, core.run_model(wl)):
        m = core.parse_model(l)
        exp = ("OK", core.show(w[1])) if w[0] == "OK" else w
        if m != exp:
            diffs.append({"op": "wrap(header string)", "kbpk": kb.hex(), "header": hs[:80], "key_len": len(key), "mask": mask,
                          "impl": [str(x)[:80] for x in exp], "model": [str(x)[:80] for x in m]})
    # Header(...) constructor and the six field setters with hostile values (HeaderError only)
    ctor = []
    good = ["B", "P0", "T", "E", "00", "N"]
    for i in range(6):
        for val in ["", good[i] * 2, good[i] + "0", "_", "é", "０", "\x00", " ", good[i].lower(), "Z" * len(good[i]), "\ud800"]:
            a = list(good)
            a[i] = val
            ctor.append(tuple(a))
    for _ in range(ctx.n(40, 400)):
        ctor.append(tuple(t.rstr(rng, rng.choice([len(g), len(g), len(g) + 1, 0]), rng.choice([t.ALNUM, t.PRINT, "ABCD"])) for g in good))
    cl = ["new_header " + " ".join(core.show(x) for x in a) for a in ctor]
    for a, l in zip(ctor, core.run_model(cl)):
        try:
            h = tr31.Header(*a)
            i = ("OK", core.show_header(h))
        except Exception as e:  # noqa: BLE001
            i = ("ERR", core.bucket(e))
        evals += 1
        seen.add(("H",) + a)
        dist["Header():" + (i[0] if i[0] == "OK" else i[1])] = dist.get("Header():" + (i[0] if i[0] == "OK" else i[1]), 0) + 1
        if i[0] == "ERR" and i[1] != "PsecError":
            viol.append({"what": "Header(...) escaped with a foreign exception", "input": {"args": list(a)}, "expected": "Ok or HeaderError", "observed": i[1]})
        if core.parse_model(l) != i:
            diffs.append({"op": "Header()", "args": list(a), "impl": list(i), "model": list(core.parse_model(l))})
    if not samples:
        samples.append({"op": "unwrap", "string": unwrap_items[1][1][:80]})
    return {"evaluations": evals, "distinct_nontrivial": len(seen), "samples": samples, "distribution": dist,
            "diffs": diffs, "violations": viol,
            "rule": "grammar-aware mutations of valid blocks of every version at every structural position (hostile code points: "
                    "non-ASCII, control, surrogate, full-width; truncation; insertion), block-count and length-field games, extended "
                    "lengths with length-of-length 0..255, pad blocks carrying hostile data, lower-case pad ids, KBPK lengths 0..40, "
                    "random Unicode strings; impl must return Ok or the module's errors within 5 s (unwrap, Header.load, KeyBlock(k,str), "
                    "wrap with a header string); impl and model buckets compared; distinct_nontrivial = distinct inputs"}
