"""C09 - generate_cvv is the standard CVV and always three digits."""
from harness import core, oracles as o, framework as fw

LEGACY_WITNESS = (bytes.fromhex("3d4b4d10f83cdce8ff775fdfb6569a53"), "8820620256635445", "2512", "101")


def in_domain(cvk, pan, e, s):
    dec = lambda t: all(c in "0123456789" for c in t)  # noqa: E731
    return len(cvk) == 16 and len(pan) <= 19 and dec(pan) and len(e) == 4 and dec(e) and len(s) == 3 and dec(s)


def check_impl(fn, args, out):
    if not in_domain(*args):
        return None if out == ("ERR", "ValueError") else {"what": "accepted or crashed outside the domain", "expected": "ValueError", "observed": list(out)}
    exp = o.cvv(*args)
    if out != ("OK", core.show(exp)) or len(exp) != 3:
        return {"what": "CVV differs from the standard algorithm / not 3 digits", "expected": exp, "observed": list(out)}
    return None


def rare_inputs(rng, want, budget):
    """directed search (real cipher, reused ECB contexts) for inputs whose final block has < 3 decimal
    nibbles, i.e. that reach the second decimalisation pass (about 1 in 12000)"""
    from cryptography.hazmat.primitives.ciphers import Cipher, algorithms, modes
    found = []
    tried = 0
    while tried < budget and len(found) < want:
        cvk = rng.randbytes(16)
        e1 = Cipher(algorithms.TripleDES(cvk[:8]), modes.ECB()).encryptor()
        e2 = Cipher(algorithms.TripleDES(cvk), modes.ECB()).encryptor()
        for _ in range(4000):
            tried += 1
            pl = rng.choice((16, 16, 16, 13, 19, 15, 12))
            pan = "%0*d" % (pl, rng.randrange(10 ** pl))
            e = "%04d" % rng.randrange(10000)
            s = "%03d" % rng.randrange(1000)
            ds = [int(c) for c in pan + e + s]
            ds += [0] * (32 - len(ds))
            r = e2.update(o.xor(e1.update(o.from_nibbles(ds[:16])), o.from_nibbles(ds[16:])))
            nb = o.nibbles(r)
            dec = [x for x in nb if x < 10]
            if len(dec) < 3:
                found.append((cvk, pan, e, s))
                if len(found) >= want:
                    break
            else:
                # other shapes of the final block that a rewritten decimalisation may treat specially
                shape = None
                if len(set(dec)) <= 2:
                    shape = "three or more decimal nibbles, at most two distinct values"
                elif len(dec) == 3:
                    shape = "exactly three decimal nibbles"
                elif len(dec) == 16:
                    shape = "all sixteen nibbles decimal"
                elif all(x >= 10 for x in nb[:3]):
                    shape = "first three nibbles are letters"
                elif all(x >= 10 for x in nb[-8:]):
                    shape = "decimal nibbles only in the first half"
                if shape and len(SHAPES.setdefault(shape, [])) < 6:
                    SHAPES[shape].append((cvk, pan, e, s))
    return found


SHAPES = {}


def run(ctx):
    rng = ctx.rng
    cases = [("generate_cvv", LEGACY_WITNESS)]
    # corpus of ultra-rare inputs (final block with 0 or 1 decimal nibbles; found once by tools/rare_search.py with
    # the real DES - they depend on DES only, not on psec): replayed first
    import json, os
    cp = os.path.join(fw.VERIF, "corpus", "C09.json")
    corpus = json.load(open(cp)) if os.path.exists(cp) else []
    for w in corpus:
        cases.append(("generate_cvv", (bytes.fromhex(w["cvk"]), w["pan"], w["expiry"], w["service_code"])))
    from harness import gens
    for _ in range(ctx.n(400, 4000)):
        pl = rng.choice(list(range(0, 20)))
        cases.append(("generate_cvv", (gens.key(rng, 16), gens.digits(rng, pl), gens.digits(rng, 4), gens.digits(rng, 3))))
    # neighbours: same key / PAN with one field changed, base repeated (history dependence)
    cases = fw.with_history(rng, cases, gens.variants_generic(rng), fraction=0.15, limit=80)
    rare = rare_inputs(rng, ctx.n(40, 400), ctx.n(1200000, 12000000))
    cases += [("generate_cvv", r) for r in rare]
    for shape, items in SHAPES.items():
        cases += [("generate_cvv", r) for r in items]
    # domain edges
    for cvkl in (0, 8, 15, 17, 24):
        cases.append(("generate_cvv", (rng.randbytes(cvkl), "1234567890123456", "2512", "101")))
    for pan in ("1" * 20, "12345678901234５6", "1234 678", "+1234", "12_34", ""):
        cases.append(("generate_cvv", (rng.randbytes(16), pan, "2512", "101")))
    for e in ("251", "25123", "25１2", "2 12", ""):
        cases.append(("generate_cvv", (rng.randbytes(16), "1234567890123456", e, "101")))
    for s in ("10", "1011", "1０1", "1\n1", ""):
        cases.append(("generate_cvv", (rng.randbytes(16), "1234567890123456", "2512", s)))
    res = fw.call_result(
        cases, check_impl=check_impl, nontrivial=lambda fn, a, o_: o_[0] == "OK",
        rule="random CVK/PAN(0..19)/expiry/service code + the recorded legacy witness + inputs found by directed search "
             "whose final cipher block has fewer than 3 decimal nibbles (second decimalisation pass) + domain edges; "
             "oracle = independent CVV from single-block OpenSSL ECB; non-trivial = distinct successful calls")
    fw.inplace_history(res, rng, [c for c in cases if check_impl(c[0], c[1], core.impl_call(c[0], c[1])) is None][:200], check_impl)
    res["distribution"]["second_pass_inputs"] = len(rare) + 1
    for shape, items in SHAPES.items():
        res["distribution"]["final block: " + shape] = len(items)
    res["distribution"]["corpus_inputs_0_or_1_decimal_nibbles"] = len(corpus)
    return res
