"""C08 - ISO 9797-1 padding methods are exact (psec.mac.pad_iso_1/2/3)."""
from harness import core, framework as fw


def spec_pad1(data, bs):
    k = 0
    while not (len(data) + k > 0 and (len(data) + k) % bs == 0):
        k += 1
    return data + b"\x00" * k


def expected(fn, data, bs):
    bs = 8 if bs is None else bs
    if fn == "pad_iso_1":
        return spec_pad1(data, bs)
    if fn == "pad_iso_2":
        return spec_pad1(data + b"\x80", bs)
    return (len(data) * 8).to_bytes(bs, "big") + spec_pad1(data, bs)


def check_impl(fn, args, out):
    data, bs = args
    b = 8 if bs is None else bs
    if b <= 0 or (fn == "pad_iso_3" and len(data) * 8 >= 256 ** b):
        return None  # outside the documented domain
    exp = ("OK", core.show(expected(fn, data, bs)))
    if out != exp:
        return {"what": "padding is not the exact ISO 9797-1 padding", "expected": exp[1], "observed": list(out)}
    return None


def gen(ctx):
    rng = ctx.rng
    cases = []
    sizes = [1, 2, 3, 4, 5, 7, 8, 16] + ([6, 9, 12, 24, 32] if ctx.thorough else [])
    for bs in sizes:
        maxlen = 4 * bs + 1 if (ctx.thorough or bs <= 8) else 2 * bs + 2
        for n in range(0, maxlen + 1):
            tails = [None, b"\x00", b"\x80", b"\x80\x00"] if n else [None]
            for tail in tails:
                d = rng.randbytes(n)
                if tail and n >= len(tail):
                    d = d[: n - len(tail)] + tail
                for fn in ("pad_iso_1", "pad_iso_2", "pad_iso_3"):
                    cases.append((fn, (d, bs)))
    # block sizes beyond 16 (every residue: paddings longer than one AES block)
    for bs in (17, 24, 32, 33, 64) + ((20, 48, 100, 255) if ctx.thorough else ()):
        for n in list(range(0, bs + 2)) + [2 * bs - 1, 2 * bs, 2 * bs + 1]:
            d = rng.randbytes(n)
            for fn in ("pad_iso_1", "pad_iso_2", "pad_iso_3"):
                cases.append((fn, (d, bs)))
    # large block sizes (beyond one byte of count: 255 / 256 / 257, 1000, 4096) at a few lengths around the boundaries
    for bs in (128, 255, 256, 257, 1000, 4096):
        for n in (0, 1, bs - 1, bs, bs + 1, 2 * bs - 1, 2 * bs):
            d = rng.randbytes(n)
            for fn in ("pad_iso_1", "pad_iso_2", "pad_iso_3"):
                cases.append((fn, (d, bs)))
    # uniform contents (all 00 / 80 / FF) at every length 0..3 blocks
    for bs in (4, 8, 16, 3):
        for n in range(0, 3 * bs + 2):
            for fill in (b"\x00", b"\x80", b"\xff"):
                for fn in ("pad_iso_1", "pad_iso_2", "pad_iso_3"):
                    cases.append((fn, (fill * n, bs)))
    # default block size (None -> 8)
    for n in range(0, 20):
        for fn in ("pad_iso_1", "pad_iso_2", "pad_iso_3"):
            cases.append((fn, (rng.randbytes(n), None)))
    # method 3 at and beyond the one-block limit of the bit length; block size 0
    for n in (31, 32, 33):
        cases.append(("pad_iso_3", (rng.randbytes(n), 1)))
    cases.append(("pad_iso_1", (b"ab", 0)))
    cases.append(("pad_iso_3", (b"", 0)))
    cases.append(("pad_iso_3", (b"a", 0)))
    return cases


def model_args(fn, args):
    return (args[0], 8 if args[1] is None else args[1])


def run(ctx):
    cases = gen(ctx)
    res = fw.call_result(
        cases, check_impl=check_impl, model_args=model_args,
        nontrivial=lambda fn, a, o: o[0] == "OK",
        rule="every length 0..4 blocks (2 blocks for 16 in quick) x block sizes 1..16 and 17/24/32/33/64 (every residue) x random content and content "
             "ending in 00 / 80 / 80 00, three methods, plus default block size and out-of-domain sizes; "
             "non-trivial = distinct (function, data, block size) that pads successfully")
    # injectivity on the implementation: no two distinct messages share a padding (methods 2, 3)
    seen = {}
    for fn, (d, bs) in cases:
        if fn == "pad_iso_1" or not bs:
            continue
        o = core.impl_call(fn, (d, bs))
        if o[0] != "OK":
            continue
        k = (fn, bs, o[1])
        if k in seen and seen[k] != d:
            res["violations"].append({"what": fn + " not injective", "expected": "distinct paddings",
                                      "observed": o[1], "input": {"fn": fn, "args": [core.show(d), core.show(seen[k]), bs]}})
        seen[k] = d
    return res
