"""C18 - deterministic operations are pure under repetition, interleaving and threads."""
import copy
import os
import subprocess
import sys
import threading

from harness import core, effects, framework as fw
from harness.props import tr31_common as t
from harness.props.pinblock_common import rnd_digits
from psec import pinblock, tr31


def pre_proof():
    """Regenerate coq/Gen/Effects.v from the CURRENT source and recompile it.  Gen/Effects.v and Properties/C18.v are
    deliberately not part of the main build (_CoqProject): they depend on the tree under test, so only this check
    compiles them - a tree that violates the purity policy must not break the build of the other properties."""
    out = os.path.join(fw.COQ, "Gen", "Effects.v")
    os.makedirs(os.path.dirname(out), exist_ok=True)
    try:
        txt = effects.to_coq(effects.analyse(core.REPO))
    except SyntaxError as e:       # the source does not even parse: no summary, the obligation cannot be checked
        txt = "(* psec source does not parse: %s *)\nFrom Psec Require Import Proofs.EffectPolicy.\nDefinition effects : list fn_summary := nil.\n" % str(e).replace("*)", "")
    with open(out, "w") as f:
        f.write(txt)
    subprocess.run(["coqc", "-R", ".", "Psec", "Gen/Effects.v"], cwd=fw.COQ, capture_output=True, text=True, timeout=600,
                   preexec_fn=fw.limit_mem)


def workload(rng, n):
    items = []
    d = lambda k: rnd_digits(rng, k)  # noqa: E731
    kb_cache = []
    shared_kbpks = [rng.randbytes(16), rng.randbytes(24)]
    for v in "ABCD":
        for _ in range(6):
            c = t.gen_case(rng, version=v, profile=rng.choice(["none", "few"]), keylen=16, mask=None)
            c["kbpk"] = shared_kbpks[len(kb_cache) % 2]      # two KBPKs (16 / 24 bytes) shared by blocks of every version
            kb_cache.append((c["kbpk"], tr31.wrap(c["kbpk"], t.impl_header(c), c["key"])))
    # rare data-dependent branches (second decimalisation pass of CVV / PVV): corpus inputs, several of each in one process
    import json
    import os
    for name, fn in (("C09.json", "generate_cvv"), ("C10.json", "generate_visa_pvv")):
        cp = os.path.join(fw.VERIF, "corpus", name)
        corpus = json.load(open(cp)) if os.path.exists(cp) else []
        for w in rng.sample(corpus, min(len(corpus), 12)):
            if fn == "generate_cvv":
                items.append((fn, (bytes.fromhex(w["cvk"]), w["pan"], w["expiry"], w["service_code"])))
            else:
                items.append((fn, (bytes.fromhex(w["pvk"]), w["pvki"], w["pin"], w["pan"])))
    while len(items) < n:
        k = rng.randrange(16)
        if k == 0:
            items.append(("xor", (bytearray(rng.randbytes(16)), bytearray(rng.randbytes(16)))))
        elif k == 1:
            items.append(("adjust_key_parity", (bytearray(rng.randbytes(rng.choice((8, 16, 24)))),)))
            items.append(("apply_key_variant", (bytearray(rng.randbytes(16)), rng.randrange(32))))
        elif k == 2:
            alg = rng.choice(("tdes", "aes"))
            bs, ks = (8, (8, 16, 24)) if alg == "tdes" else (16, (16, 24, 32))
            key, iv, data = rng.randbytes(rng.choice(ks)), rng.randbytes(bs), rng.randbytes(bs * rng.randrange(1, 5))
            items.append(("%s_%s_cbc" % (rng.choice(("encrypt", "decrypt")), alg), (key, iv, data)))
            items.append(("%s_%s_ecb" % (rng.choice(("encrypt", "decrypt")), alg), (key, data)))
        elif k == 3:
            items.append(("generate_cbc_mac", (rng.randbytes(16), rng.randbytes(rng.randrange(0, 40)), rng.choice((1, 2, 3)), None, rng.random() < 0.5)))
        elif k == 4:
            items.append(("generate_retail_mac", (rng.randbytes(8), rng.randbytes(16), rng.randbytes(rng.randrange(0, 40)), rng.choice((1, 2, 3)), None)))
            items.append(("pad_iso_%d" % rng.choice((1, 2, 3)), (rng.randbytes(rng.randrange(0, 20)), 8)))
        elif k == 5:
            items.append(("generate_cvv", (rng.randbytes(16), d(16), d(4), d(3))))
        elif k == 6:
            items.append(("generate_visa_pvv", (rng.randbytes(16), d(1), d(4), d(16))))
        elif k == 7:
            fn = rng.choice(("generate_ibm3624_pin", "generate_ibm3624_offset"))
            items.append((fn, (rng.randbytes(8), d(16), d(rng.randrange(4, 9)), d(16), 0, 12, rng.choice("0123456789ABCDEF"))))
        elif k == 8:
            pin, pan = d(rng.randrange(4, 13)), d(16)
            items.append(("encode_pinblock_iso_0", (pin, pan)))
            items.append(("decode_pinblock_iso_0", (pinblock.encode_pinblock_iso_0(pin, pan), pan)))
        elif k == 9:
            pin, pan = d(rng.randrange(4, 13)), d(16)
            items.append(("encode_pinblock_iso_2", (pin,)))
            items.append(("decode_pinblock_iso_3", (pinblock.encode_pinblock_iso_3(pin, pan), pan)))
        elif k == 10:
            pin, pan, key = d(rng.randrange(4, 13)), d(rng.randrange(1, 20)), rng.randbytes(16)
            items.append(("decipher_pinblock_iso_4", (key, pinblock.encipher_pinblock_iso_4(key, pin, pan), pan)))
            items.append(("encode_pan_field_iso_4", (pan,)))
        elif k == 11:
            items.append(("generate_kcv", (rng.randbytes(rng.choice((8, 16, 24))), 3)))
            items.append(("odd_parity", (rng.getrandbits(32),)))
        elif k in (12, 13, 14):
            kbpk, kb = rng.choice(kb_cache)
            r_ = rng.random()
            if r_ < 0.3:
                p = rng.randrange(len(kb))
                kb = kb[:p] + rng.choice("0123456789ABCDEF") + kb[p + 1:]
            elif r_ < 0.4:
                # rejected inside the optional-block section (after the mandatory fields were read), at the count test, at the length test
                kb = rng.choice([kb[:12] + "09" + kb[14:], kb[:12] + "0X" + kb[14:], kb[:18] + "FF" + kb[20:], kb[:16] + "**" + kb[18:],
                                 kb[0] + "0024" + kb[5:], kb[:14] + "Q9" + kb[16:], kb[:-1]])
            items.append(("tr31.unwrap", (kbpk, kb)))
        else:
            c = t.gen_case(rng, profile=rng.choice(["few", "few", "few", "many"]), keylen=16)
            items.append(("tr31.str", (t.impl_header(c),)))
    rng.shuffle(items)
    # half of the items pass their byte-string arguments as mutable bytearrays (messages, keys, IVs, blocks)
    out = []
    for fn, args in items[:n]:
        if fn not in ("tr31.unwrap", "tr31.str") and rng.random() < 0.5:
            args = tuple(bytearray(a) if isinstance(a, bytes) else a for a in args)
        out.append((fn, args))
    return out


def show_arg(a, n):
    """printable form of an argument for reports (str() of a Header may itself raise, e.g. with 100 blocks)"""
    try:
        return (core.show_header(a) if isinstance(a, tr31.Header) else str(a))[:n]
    except Exception as e:  # noqa: BLE001
        return repr(e)[:n]


def call(item):
    fn, args = item
    if fn == "tr31.unwrap":
        return t.impl_unwrap(*args)
    if fn == "tr31.str":
        try:
            return ("OK", str(args[0]), args[0].dump(16))
        except Exception as e:  # noqa: BLE001
            return ("ERR", core.bucket(e))
    return core.impl_call(fn, args)


def snapshot(args):
    return [core.show_header(a) if isinstance(a, tr31.Header) else copy.deepcopy(a) for a in args]


def run(ctx):
    import random
    rng = ctx.rng
    n = ctx.n(3000, 24000)
    items = workload(rng, n)
    viol, diffs, dist = [], [], {}
    # single-threaded reference run; arguments must not change
    ref = []
    for it in items:
        before = snapshot(it[1])
        ref.append(call(it))
        if snapshot(it[1]) != before:
            viol.append({"what": "call modified its arguments", "input": {"fn": it[0], "args": [show_arg(a, 80) for a in before]},
                         "expected": "arguments unchanged", "observed": [show_arg(a, 80) for a in snapshot(it[1])]})
        dist[it[0]] = dist.get(it[0], 0) + 1
    # objects handed out earlier must not change afterwards (e.g. headers returned by unwrap sharing one default object)
    kept = []
    for it in items[:400]:
        if it[0] == "tr31.unwrap":
            try:
                h, k = tr31.unwrap(*it[1])
                kept.append((it, h, core.show_header(h)))
            except Exception:  # noqa: BLE001
                pass
    for it, h, txt in kept:
        if core.show_header(h) != txt:
            viol.append({"what": "a header returned by an earlier unwrap was changed by later calls",
                         "input": {"fn": "tr31.unwrap", "args": [show_arg(a, 80) for a in it[1]]}, "expected": txt[:100], "observed": core.show_header(h)[:100]})
            break
    # TR-31 unwrap through ONE KeyBlock object per KBPK, reused for every block of every version in workload order:
    # same result as the module-level unwrap on a fresh object
    reused = {}
    for it, r in zip(items, ref):
        if it[0] != "tr31.unwrap":
            continue
        kbpk, text = it[1]
        kbo = reused.setdefault(bytes(kbpk), tr31.KeyBlock(bytes(kbpk)))
        try:
            key = kbo.unwrap(text)
            got = ("OK", core.show_header(kbo.header), core.show(key))
        except Exception as e:  # noqa: BLE001
            got = ("ERR", core.bucket(e))
        dist["tr31.unwrap on a reused KeyBlock"] = dist.get("tr31.unwrap on a reused KeyBlock", 0) + 1
        if got != r:
            viol.append({"what": "unwrap on a KeyBlock that earlier unwrapped other blocks differs from unwrap on a fresh object",
                         "input": {"fn": "tr31.unwrap", "args": [show_arg(a, 120) for a in it[1]]}, "expected": str(r)[:160], "observed": str(got)[:160]})
            if len(viol) > 20:
                break
    # ... and the same reused-object history against the model's fold of step (outcomes and the header left behind,
    #     also after rejected unwraps - the model mirrors the partial updates of a failing load)
    per_kbpk = {}
    for it in items:
        if it[0] == "tr31.unwrap":
            per_kbpk.setdefault(bytes(it[1][0]), []).append(("U", it[1][1]))
    seqs = [(k, ops[:40]) for k, ops in per_kbpk.items()]
    both, _ = t.run_both(seqs)
    for (k, ops), (impl, model) in zip(seqs, both):
        if impl != model:
            first = next((i for i, (x, y) in enumerate(zip(impl[1], model[1])) if x != y), None)
            diffs.append({"reused KeyBlock history": "%d unwraps on one object" % len(ops), "first_diff_step": first,
                          "impl": [impl[0][:100]] + [x[:40] for x in impl[1][:6]], "model": [model[0][:100]] + [x[:40] for x in model[1][:6]]})
    # repetition
    for it, r in zip(items[:300], ref):
        if call(it) != r:
            viol.append({"what": "same call, different result on repetition", "input": {"fn": it[0], "args": [show_arg(a, 80) for a in it[1]]},
                         "expected": str(r)[:120], "observed": "differs"})
    # model: same values (the deterministic functions the driver exposes)
    mitems = [(i, it) for i, it in enumerate(items) if it[0] in core.FUNCS]
    sample = mitems if ctx.thorough else mitems[:900]
    lines = [core.model_line(it[0], tuple(bytes(a) if isinstance(a, bytearray) else a for a in it[1])) for _, it in sample]
    for (i, it), l in zip(sample, core.run_model(lines)):
        if core.parse_model(l) != ref[i]:
            diffs.append({"fn": it[0], "args": [core.show(bytes(a) if isinstance(a, bytearray) else a)[:80] for a in it[1]],
                          "impl": list(ref[i]), "model": list(core.parse_model(l))})
    # interleaved, multi-threaded execution in shuffled order
    old = sys.getswitchinterval()
    sys.setswitchinterval(1e-6)
    try:
        for nthreads in (2, 16) if not ctx.thorough else (2, 4, 8, 16):
            order = list(range(len(items)))
            random.Random(ctx.seed * 31 + nthreads).shuffle(order)
            results = [None] * len(items)
            befores = [snapshot(it[1]) for it in items]

            def work(tid, nthreads=nthreads, order=order, results=results):
                for pos in range(tid, len(order), nthreads):
                    i = order[pos]
                    results[i] = call(items[i])

            ths = [threading.Thread(target=work, args=(k,)) for k in range(nthreads)]
            for th in ths:
                th.start()
            for th in ths:
                th.join()
            bad = [i for i in range(len(items)) if results[i] != ref[i]]
            for i in bad[:10]:
                viol.append({"what": "result under %d interleaved threads differs from the single-threaded result" % nthreads,
                             "input": {"fn": items[i][0], "args": [show_arg(a, 80) for a in items[i][1]], "threads": nthreads, "seed": ctx.seed},
                             "expected": str(ref[i])[:120], "observed": str(results[i])[:120]})
            for i, it in enumerate(items):
                if snapshot(it[1]) != befores[i]:
                    viol.append({"what": "arguments modified under threads", "input": {"fn": it[0], "threads": nthreads},
                                 "expected": "unchanged", "observed": "changed"})
                    break
    finally:
        sys.setswitchinterval(old)
    samples = [{"fn": it[0], "args": [show_arg(a, 40) for a in it[1]], "result": str(r)[:60]} for it, r in list(zip(items, ref))[:4]]
    return {"evaluations": len(items) * 3 + 300, "distinct_nontrivial": len({(it[0], str(it[1])) for it in items}), "samples": samples,
            "distribution": dist, "diffs": diffs, "violations": viol,
            "not_covered": ["CPython / OpenSSL internals under true parallelism beyond the observed schedules"],
            "rule": "mixed workload of %d (function, arguments) items over every deterministic public operation (mutable bytearray and "
                    "Header arguments included): single-threaded reference run, repetition, then shuffled execution by 2 and 16 threads "
                    "(2,4,8,16 in thorough) with switch interval 1e-6; every result compared with the reference, arguments compared "
                    "before/after, deterministic values compared with the model; distinct_nontrivial = distinct items" % len(items)}
