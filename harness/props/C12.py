"""C12 - every emitted TR-31 key block and header string is well-framed."""
from harness import core, oracles as o, framework as fw
from harness.props import tr31_common as t
from psec import tr31

HEXU = set("0123456789ABCDEF")


def framing_errors(c, kb):
    """the property's framing rules, evaluated on an emitted key block (independent parser)"""
    v = c["version"]
    bs, ml = t.BS[v], t.MACLEN[v]
    errs = []
    if not all(32 <= ord(ch) <= 126 for ch in kb):
        errs.append("not printable ASCII")
    if len(kb) > 9999:
        errs.append("longer than 9999")
    if kb[1:5] != "%04d" % len(kb):
        errs.append("length field %r != %d" % (kb[1:5], len(kb)))
    if len(kb) % bs:
        errs.append("length not a multiple of %d" % bs)
    try:
        n = int(kb[12:14])
        i = 16
        ids = []
        for _ in range(n):
            bid = kb[i:i + 2]
            ln = int(kb[i + 2:i + 4], 16)
            if ln == 0:
                ll = int(kb[i + 4:i + 6], 16)
                ln = int(kb[i + 6:i + 6 + 2 * ll], 16)
            ids.append(bid)
            i += ln
        hl = i
    except ValueError:
        return errs + ["block section does not parse"]
    if n > 99:
        errs.append("more than 99 blocks")
    want = [b[0] for b in c["blocks"]]
    if ids[:len(want)] != want or ids[len(want):] not in ([], ["PB"]):
        errs.append("block ids %r (count field %d) do not match the header's blocks + at most one trailing pad block" % (ids[-3:], n))
    if hl % bs:
        errs.append("header section %d not a multiple of %d" % (hl, bs))
    rest = kb[hl:]
    if not set(rest) <= HEXU:
        errs.append("binary section is not upper-case hex")
    if len(rest) < 2 * ml + 2 * bs or (len(rest) - 2 * ml) % (2 * bs):
        errs.append("binary section %d chars is not block-multiple key data + %d-byte MAC" % (len(rest), ml))
    return errs


def run(ctx):
    rng = ctx.rng
    cases = []
    for v in "ABCD":
        bs = t.BS[v]
        # total block length exhaustively over every residue, around 251/252, 98/99 blocks, 9984..9999
        for ln in list(range(0, 2 * bs + 2)) + [247, 248, 249, 250, 251, 252, 253, 254, 255, 256, 300]:
            c = t.gen_case(rng, version=v, profile="none", keylen=rng.choice([0, 8, 16, 24]), mask=None)
            c["blocks"] = [("T0", t.rstr(rng, ln, t.PRINT))]
            cases.append(c)
        for nb in (97, 98, 99, 100):
            for dl in (0, 1, 2, 3):
                c = t.gen_case(rng, version=v, profile="none", keylen=8, mask=None)
                used = set()
                c["blocks"] = [(t.gen_block_id(rng, used), t.rstr(rng, dl if k else rng.randrange(0, 9), t.PRINT)) for k in range(nb)]
                cases.append(c)
        for _ in range(ctx.n(6, 40)):
            cases.append(t.gen_case(rng, version=v, profile="big", keylen=rng.choice([0, 1, 8, 16, 24, 33])))
        for _ in range(ctx.n(10, 60)):
            cases.append(t.gen_case(rng, version=v))
        # no optional blocks, key (or mask) long enough to cross the 9999-character limit on its own
        for kl in (4950, 4958, 4966, 4974, 4979, 4982, 4990, 5000, 6000, 8191, 8192):
            cases.append(t.gen_case(rng, version=v, profile="none", keylen=kl, mask=None, algorithm="0"))
        for m in (4966, 4975, 4990, 20000):
            cases.append(t.gen_case(rng, version=v, profile="none", keylen=16, mask=m))
        for _ in range(ctx.n(4, 20)):
            cases.append(t.gen_case(rng, version=v, profile="ws_aligned", keylen=rng.choice([0, 8, 16])))
    cases += t.selfref_cases(rng)
    viol, diffs, dist, samples = [], [], {}, []
    seen = set()
    rows = []
    for c in cases:
        h = t.impl_header(c)
        try:
            s = str(h)
            st = ("OK", s)
        except Exception as e:  # noqa: BLE001
            st = ("ERR", core.bucket(e))
        try:
            kb = ("OK", tr31.wrap(c["kbpk"], h, c["key"], c["mask"]))
        except Exception as e:  # noqa: BLE001
            kb = ("ERR", core.bucket(e))
        inp = {"kbpk_len": len(c["kbpk"]), "hdr16": c["hdr16"], "blocks": [[b[0], len(b[1])] for b in c["blocks"]][:8],
               "nblocks": len(c["blocks"]), "key_len": len(c["key"]), "mask": c["mask"]}
        k = "%s:wrap:%s" % (c["version"], kb[0] if kb[0] == "OK" else kb[1])
        dist[k] = dist.get(k, 0) + 1
        if kb[0] == "OK":
            seen.add((c["version"], len(kb[1]), len(c["blocks"])))
            errs = framing_errors(c, kb[1])
            if errs:
                viol.append({"what": "emitted key block is not well-framed: " + "; ".join(errs), "input": inp,
                             "expected": "framing rules", "observed": kb[1][:120]})
        elif kb[1] != "PsecError":
            viol.append({"what": "wrap raised a foreign exception", "input": inp, "expected": "PsecError", "observed": kb[1]})
        if st[0] == "OK" and len(st[1]) <= 9999:
            h2 = tr31.Header()
            try:
                n = h2.load(st[1])
                if n != len(st[1]) or core.show_header(h2) != core.show_header(h):
                    viol.append({"what": "str(header) does not re-load to an equal header / wrong length", "input": inp,
                                 "expected": [len(st[1]), core.show_header(h)[:100]], "observed": [n, core.show_header(h2)[:100]]})
            except Exception as e:  # noqa: BLE001
                viol.append({"what": "str(header) does not re-load", "input": inp, "expected": "load ok", "observed": repr(e)[:200]})
        rows.append((st, kb))
    # every MutableMapping entry point x hostile ids / data: whatever the API lets into a header must still serialise
    # to a well-framed block that re-loads (on the pinned tree all of these are rejected with HeaderError)
    hostile = [("KSN", "1"), ("T", "12"), ("K_", "123"), ("", "x"), ("ab", "\x7f"), ("a b", ""), ("KS", "\x1f"),
               ("K\u0660", "1"), ("\uff21\uff22", "x"), ("T1", "caf\xe9"), ("T2", "tab\t"), ("ks", " ok "), ("Z9", "~}|"),
               ("T3", "abc\n"), ("K\n", "1"), ("T4", "\nabc"), ("T5", "a\r"), ("T6", "abc\n\n"), ("\nK", "x"), ("T7", "\n")]
    for v in "ABCD":
        for style in range(5):
            for bid, data in hostile:
                c = t.gen_case(rng, version=v, profile="none", keylen=16, mask=None, algorithm="T")
                h = t.impl_header(c)
                core.set_block(h.blocks, "T0", "first")
                try:
                    core.set_block(h.blocks, bid, data, style)
                    ins = "accepted"
                except Exception as e:  # noqa: BLE001
                    ins = core.bucket(e)
                k = "api_style%d:%s" % (style, ins)
                dist[k] = dist.get(k, 0) + 1
                if ins not in ("accepted", "PsecError"):
                    viol.append({"what": "block insertion raised a foreign exception", "input": {"id": bid, "data": data, "style": style},
                                 "expected": "HeaderError or accepted", "observed": ins})
                try:
                    kbt = tr31.wrap(c["kbpk"], h, c["key"])
                except Exception:  # noqa: BLE001
                    continue
                c2 = dict(c)
                c2["blocks"] = list(dict(h.blocks).items())
                errs = framing_errors(c2, kbt)
                try:
                    h3 = tr31.Header()
                    n3 = h3.load(str(h))
                    if n3 != len(str(h)) or core.show_header(h3) != core.show_header(h):
                        errs.append("str(header) does not re-load to an equal header")
                except Exception as e:  # noqa: BLE001
                    errs.append("str(header) does not re-load: " + repr(e)[:80])
                if errs:
                    viol.append({"what": "a header built through the mapping API serialises to an ill-framed block: " + "; ".join(errs),
                                 "input": {"version": v, "id": bid, "data": data, "entry_point_style": style, "insertion": ins},
                                 "expected": "framing rules", "observed": kbt[:100]})
    # the same hostile ids / data arriving through Header.load (a header string from a file or a peer)
    for v in "ABCD":
        for bid, data in hostile:
            if len(bid) != 2:
                continue
            c = t.gen_case(rng, version=v, profile="none", keylen=16, mask=None, algorithm="T")
            hs = c["hdr16"][:12] + "01" + c["hdr16"][14:16] + bid + "%02X" % (len(data) + 4) + data
            h = tr31.Header()
            try:
                h.load(hs)
                ins = "accepted"
            except Exception as e:  # noqa: BLE001
                ins = core.bucket(e)
            dist["load_hostile:" + ins] = dist.get("load_hostile:" + ins, 0) + 1
            if ins not in ("accepted", "PsecError"):
                viol.append({"what": "Header.load raised a foreign exception", "input": {"header": hs}, "expected": "HeaderError or accepted", "observed": ins})
            if ins != "accepted":
                continue
            try:
                kbt = tr31.wrap(c["kbpk"], h, c["key"])
            except Exception:  # noqa: BLE001
                continue
            c2 = dict(c)
            c2["blocks"] = list(dict(h.blocks).items())
            errs = framing_errors(c2, kbt)
            if errs:
                viol.append({"what": "a loaded header string serialises to an ill-framed block: " + "; ".join(errs),
                             "input": {"version": v, "header": hs}, "expected": "framing rules", "observed": kbt[:100]})
    # header strings written by ANOTHER implementation (pad block first / in the middle / in extended form / with a
    # non-zero filler, extended lengths everywhere) given to wrap: what psec emits must again be well-framed, with the
    # header's data blocks in order and at most one trailing pad block
    nforeign = 0
    for v in "ABCD":
        for choice in ({"pb_pos": "first", "pb_fill": "9"}, {"pb_pos": "middle"}, {"pb_ext": True, "pb_fill": "~"}, {"pb_fill": "F", "pb_size": 1},
                       {"ext_all": True, "ll": 3, "pb_pos": "middle", "pb_fill": " "}):
            c = t.gen_case(rng, version=v, profile="few", keylen=16, mask=None)
            tries = 0
            while (len(c["blocks"]) < 2 or sum(len(b[1]) + 4 for b in c["blocks"]) % t.BS[v] == 0) and tries < 50:
                c = t.gen_case(rng, version=v, profile="few", keylen=16, mask=None)
                tries += 1
            fb = t.reference_block(rng, c, **choice)
            if not fb:
                continue
            hs = fb[: tr31.Header().load(fb)]
            nforeign += 1
            for how in ("wrap(header string)", "KeyBlock(kbpk, header string).wrap", "unwrap then wrap on the same object"):
                try:
                    if how == "wrap(header string)":
                        out = tr31.wrap(c["kbpk"], hs, c["key"])
                    elif how.startswith("KeyBlock"):
                        out = tr31.KeyBlock(c["kbpk"], hs).wrap(c["key"])
                    else:
                        kbo = tr31.KeyBlock(c["kbpk"])
                        kbo.unwrap(fb)
                        out = kbo.wrap(c["key"])
                except Exception as e:  # noqa: BLE001
                    viol.append({"what": "a header written by another implementation could not be re-wrapped: " + how,
                                 "input": {"header": hs[:200], "choices": choice}, "expected": "key block", "observed": repr(e)[:160]})
                    continue
                errs = framing_errors(c, out)
                if errs:
                    viol.append({"what": "key block emitted for a header written by another implementation is ill-framed (%s): %s" % (how, "; ".join(errs)),
                                 "input": {"header": hs[:200], "choices": choice}, "expected": "framing rules", "observed": out[:160]})
    dist["foreign_header_strings"] = nforeign
    # the public attribute kb.header re-bound to another Header (other version / other blocks) between two wraps: the second
    # key block must be the one of the NEW header (framing of its version, opens to its fields)
    for v1, v2 in (("B", "D"), ("D", "A"), ("A", "B"), ("C", "D")):
        c1 = t.gen_case(rng, version=v1, profile="few", keylen=16, mask=None)
        c2 = t.gen_case(rng, version=v2, profile=rng.choice(["none", "few"]), keylen=16, mask=None)
        kbpk = rng.randbytes(16)
        try:
            kbo = tr31.KeyBlock(kbpk, t.impl_header(c1))
            kbo.wrap(c1["key"])
            h2 = t.impl_header(c2)
            kbo.header = h2
            out = kbo.wrap(c2["key"])
            errs = framing_errors(c2, out)
            u = t.impl_unwrap(kbpk, out)
            if u != ("OK", core.show_header(h2), core.show(c2["key"])):
                errs.append("does not open to the new header and key")
        except Exception as e:  # noqa: BLE001
            errs, out = ["exception " + repr(e)[:120]], ""
        if errs:
            viol.append({"what": "wrap after kb.header was re-bound to another Header: " + "; ".join(errs),
                         "input": {"first": c1["hdr16"], "second": c2["hdr16"], "kbpk": kbpk.hex()}, "expected": "key block of the second header", "observed": out[:120]})
    # copies of a header (copy.copy / deepcopy / pickle) and a Blocks object moved to another header: the serialisation of
    # the copy must be that of a header built from scratch with the same values (block size of ITS version, not of the original)
    import copy
    import pickle

    def rebuilt(hx):
        f = tr31.Header()
        f.load(hx.version_id + "0000" + hx.key_usage + hx.algorithm + hx.mode_of_use + hx.version_num + hx.exportability + "00" + hx.reserved)
        for bid, data in list(hx.blocks.items()):
            f.blocks[bid] = data
        return f

    ncopies = 0
    for v1, v2 in (("B", "D"), ("D", "B"), ("A", "D"), ("D", "C"), ("C", "A")):
        for prof in ("few", "boundary", "ws_aligned"):
            c = t.gen_case(rng, version=v1, profile=prof, keylen=16, mask=None, algorithm="T")
            c["kbpk"] = rng.randbytes(16 if "A" in (v1, v2) or "C" in (v1, v2) else 24)
            h = t.impl_header(c)
            makers = {"copy.copy": copy.copy, "copy.deepcopy": copy.deepcopy, "pickle": lambda x: pickle.loads(pickle.dumps(x)),
                      "blocks moved to a new header": None}
            for how, mk in makers.items():
                ncopies += 1
                try:
                    if mk is None:
                        h2 = tr31.Header(v2, h.key_usage, h.algorithm, h.mode_of_use, h.version_num, h.exportability)
                        h2.blocks = h.blocks
                    else:
                        h2 = mk(h)
                        h2.version_id = v2
                    fresh = rebuilt(h2)
                    got = (str(h2), len(tr31.wrap(c["kbpk"], h2, c["key"])))
                    want = (str(fresh), len(tr31.wrap(c["kbpk"], fresh, c["key"])))
                except Exception as e:  # noqa: BLE001
                    got, want = ("exception", repr(e)[:120]), ("no exception", "")
                if got != want:
                    viol.append({"what": "a copied header (%s), switched from version %s to %s, does not serialise like a header built from scratch with the same values" % (how, v1, v2),
                                 "input": {"hdr16": c["hdr16"], "blocks": [[b[0], len(b[1])] for b in c["blocks"]], "how": how, "to_version": v2},
                                 "expected": [str(x)[:100] for x in want], "observed": [str(x)[:100] for x in got]})
    dist["header_copies"] = ncopies
    # the whole mapping API of Blocks against Model/BlocksApi.v (api_run), outcome by outcome, plus the invariant
    from harness.props import blocks_api
    dist["mapping_api_sequences"] = blocks_api.check(ctx, viol, diffs, dist)
    # model: the same str / wrap (with recovered tape) must produce the same text
    ops_cases = [(c["kbpk"], t.setup_ops(c) + [("S",), ("W", c["key"], c["mask"])]) for c in cases]
    fake = []
    for c, (st, kb) in zip(cases, rows):
        outs = ["nat:16"] + ["none"] * len(c["blocks"])
        outs.append("str:" + core.show(st[1]) if st[0] == "OK" else "err:" + st[1])
        outs.append("str:" + core.show(kb[1]) if kb[0] == "OK" else "err:" + kb[1])
        fake.append(("", outs))
    mops = core.with_tapes(ops_cases, fake)
    mres = [core.parse_model_run(l) for l in core.run_model([core.model_run_line(k, ops) for k, ops in mops])]
    for c, (mh, mouts), (_, outs) in zip(cases, mres, fake):
        if mouts[-2:] != outs[-2:]:
            diffs.append({"hdr16": c["hdr16"], "nblocks": len(c["blocks"]), "key_len": len(c["key"]), "mask": c["mask"],
                          "impl": [x[:90] for x in outs[-2:]], "model": [x[:90] for x in mouts[-2:]]})
        elif len(samples) < 4 and outs[-1].startswith("str:"):
            samples.append({"hdr16": c["hdr16"], "nblocks": len(c["blocks"]), "key_block": core.unshow_str(outs[-1][4:])[:70] + "..."})
    # --- one reused object serialised under one version, switched to another block size, serialised again
    seqs = []
    for v1, v2 in (("B", "D"), ("A", "D"), ("D", "B"), ("C", "D"), ("D", "C")):
        for _ in range(ctx.n(3, 12)):
            c = t.gen_case(rng, version=v1, profile=rng.choice(["few", "few", "boundary"]), keylen=rng.choice([8, 16, 24]), mask=None)
            c["kbpk"] = rng.randbytes(16)
            ops = t.setup_ops(c) + [("S",), ("W", c["key"], None), ("F", 0, v2), ("S",), ("W", c["key"], None), ("F", 0, v1), ("S",)]
            seqs.append((c, ops))
    both, mops = t.run_both([(c["kbpk"], ops) for c, ops in seqs])
    for (c, ops), (impl, model) in zip(seqs, both):
        if impl != model:
            diffs.append({"sequence": [core.op_token(o_)[:60] for o_ in ops], "impl": [x[:70] for x in impl[1][-5:]], "model": [x[:70] for x in model[1][-5:]]})
        ver = c["version"]
        for o_, out in zip(ops, impl[1]):
            if o_[0] == "F" and o_[1] == 0 and out == "none":
                ver = o_[2]
            if o_[0] == "W" and out.startswith("str:"):
                c2 = dict(c)
                c2["version"] = ver
                errs = framing_errors(c2, core.unshow_str(out[4:]))
                if errs:
                    viol.append({"what": "key block emitted after a version switch on a reused header is not well-framed: " + "; ".join(errs),
                                 "input": {"ops": [core.op_token(x)[:100] for x in ops]}, "expected": "framing rules for version " + ver,
                                 "observed": core.unshow_str(out[4:])[:100]})
            if o_[0] == "S" and out.startswith("str:"):
                txt = core.unshow_str(out[4:])
                if len(txt) % t.BS[ver]:
                    viol.append({"what": "header string after a version switch is not a multiple of the block size",
                                 "input": {"ops": [core.op_token(x)[:100] for x in ops]}, "expected": t.BS[ver], "observed": txt[:80]})
    dist["version_switch_sequences"] = len(seqs)
    return {"evaluations": len(cases) + len(seqs) + dist.get("mapping_api_sequences", 0), "distinct_nontrivial": len(seen), "samples": samples, "distribution": dist,
            "diffs": diffs, "violations": viol,
            "rule": "versions x block data lengths over every residue of the block size and around 251/252, 97..100 blocks, "
                    "totals near 9999, random layouts x key lengths x masks; each emitted block checked against the framing "
                    "rules with an independent parser, str(header) re-loaded; model (with recovered tape) must emit the same "
                    "header string and key block text; distinct_nontrivial = distinct successful (version, block length, #blocks)"}
