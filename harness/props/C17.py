"""C17 - a reused KeyBlock/Header behaves like a fresh one."""
import itertools

from harness import core, framework as fw
from harness.props import tr31_common as t
from psec import tr31


def make_pool(rng, kbpk):
    """op pool for one KBPK (16 or 24 bytes, admissible for every version)"""
    pool = {}
    genuine = []
    for v in "ABCD":
        for prof, res in (("few", "ZZ"), ("none", "00"), ("boundary", "a1")):
            c = t.gen_case(rng, version=v, profile=prof, keylen=rng.choice([8, 16, 24]), mask=None)
            c["hdr16"] = c["hdr16"][:14] + res
            g = tr31.wrap(kbpk, t.impl_header(c), c["key"])
            genuine.append(g)
            pool.setdefault("unwrap_ok_" + v, []).append(("U", g))
    # blocks from the independent reference using encoding freedoms psec itself never uses: pad block with a non-zero
    # filler, in extended form, in front of / between the data blocks, lower-case hex, extended lengths everywhere
    for v in "ABCD":
        for choice in ({"pb_fill": "F"}, {"pb_fill": "x", "pb_size": 1}, {"pb_ext": True, "pb_fill": "~"}, {"pb_pos": "first", "pb_fill": "9"},
                       {"pb_pos": "middle", "lower": True}, {"ext_all": True, "ll": 3}):
            c = t.gen_case(rng, version=v, profile="few", keylen=rng.choice([8, 16, 24]), mask=None)
            while len(c["blocks"]) < 2 or sum(len(b[1]) + 4 for b in c["blocks"]) % t.BS[v] == 0:
                c = t.gen_case(rng, version=v, profile="few", keylen=16, mask=None)
            kb = t.reference_block(rng, c, kbpk=kbpk, **choice)
            if kb:
                pool.setdefault("unwrap_foreign_" + v, []).append(("U", kb))
                pool.setdefault("load_foreign", []).append(("L", kb[: tr31.Header().load(kb)]))
    g = genuine[0]
    hl = tr31.Header().load(g)
    g2 = genuine[3]
    bad = {
        "u_nonalnum": "_" + g[1:], "u_short": g[:10], "u_version": "E" + g[1:], "u_count": g[:12] + "0X" + g[14:],
        "u_blocks_partial": g[:12] + "09" + g[14:], "u_block_id": g[:16] + "**" + g[18:],
        "u_len_mismatch": g[0] + "0024" + g[5:], "u_not_multiple": (g[0] + "%04d" % (len(g) - 1) + g[5:])[:-1],
        "u_mac_hex": g[:-3] + "XYZ", "u_mac_wrong": g[:-1] + ("0" if g[-1] != "0" else "1"),
        "u_keydata_hex": g[:hl] + "GG" + g[hl + 2:], "u_other_version_reserved": g2[:14] + "Q9" + g2[16:],
    }
    for k, s in bad.items():
        pool.setdefault("unwrap_fail", []).append(("U", s))
    pool["load_ok"] = [("L", x[: tr31.Header().load(x)]) for x in genuine[:6]] + [("L", "B0016P0TE00N0000"), ("L", "D0000K1AX01S00r7")]
    pool["load_fail"] = [("L", s) for s in (bad["u_nonalnum"], bad["u_short"], bad["u_version"], bad["u_count"],
                                             bad["u_blocks_partial"], bad["u_block_id"], "A1234M3DC11S0XZZ", "C0016P0TE00N0100KS")]
    pool["set_block"] = [("B", "KS", "00604B120F9292800000"), ("B", "T1", "x" * 260), ("B", "K1", ""), ("B", "**", "1"), ("B", "Q2", "é"),
                         ("B", "PB", "x"), ("B", "pb", "12"), ("B", "KSN", "1"), ("B", "T", "12"), ("B", "K_", "123"), ("B", "", "x"), ("B", "ab", "\x7f"), ("B", "ks", "A b ")]
    pool["del_block"] = [("D", "KS"), ("D", "T1"), ("D", "ZZ"), ("D", "PB")]
    pool["set_field"] = [("F", 0, "A"), ("F", 0, "D"), ("F", 0, "E"), ("F", 1, "K0"), ("F", 2, "A"), ("F", 3, "X"), ("F", 4, "9z"),
                         ("F", 5, "S"), ("F", 1, "K"), ("F", 2, "__")]
    pool["wrap"] = [("W", rng.randbytes(16), None), ("W", rng.randbytes(5), 30), ("W", b"", None), ("W", rng.randbytes(24), -1)]
    pool["str"] = [("S",)]
    # headers sharing optional-block ids in different orders (order must follow the LAST load only)
    pool["load_overlap"] = [("L", "B0000P0TE00N0200KS04KC04"), ("L", "B0000P0TE00N0200TS04KS05x"), ("L", "D0000P0TE00N0300KC05yTS04KS04"),
                            ("L", "A0000P0TE00N0100TS06zz")]
    pool["set_kbpk"] = [("K", kbpk), ("K", rng.randbytes(len(kbpk))), ("K", kbpk)]
    # headers whose fields fall into different character classes (digits / upper / lower), reserved field included:
    # a field taken over only for some class of value would keep the previous object's value for the others
    pool["load_classes"] = [("L", "B0000P0TE00N0042"), ("L", "A0000P0TE00N00ZZ"), ("L", "B000077D707E0007"), ("L", "D0000k1ax01s00r7"),
                            ("L", "C0000M3TCabE009a"), ("L", "A0000K0AB00N00A1"), ("L", "D000012345670099"), ("L", "B0000zzzzzzz00zz")]
    return pool


def fresh_outcome(kbpk, op):
    h, outs = core.impl_run_ops(kbpk, [op])
    return h, outs[0]


def run(ctx):
    rng = ctx.rng
    viol, diffs, dist, samples = [], [], {}, []
    seqs = []
    for ks in (16, 24):
        kbpk = rng.randbytes(ks)
        pool = make_pool(rng, kbpk)
        kinds = sorted(pool)
        pick = lambda k: rng.choice(pool[k])  # noqa: E731
        # every ordered pair of op kinds; triples/quadruples exhaustive in thorough, sampled in quick
        for a, b in itertools.product(kinds, kinds):
            seqs.append((kbpk, [pick(a), pick(b)]))
        triples = list(itertools.product(kinds, repeat=3))
        quads = list(itertools.product(kinds, repeat=4))
        for tr in (triples if ctx.thorough else rng.sample(triples, 150)):
            seqs.append((kbpk, [pick(k) for k in tr]))
        for q in (quads if ctx.thorough and ks == 16 else rng.sample(quads, ctx.n(120, 3000))):
            seqs.append((kbpk, [pick(k) for k in q]))
        for _ in range(ctx.n(40, 400)):
            seqs.append((kbpk, [pick(rng.choice(kinds)) for _ in range(rng.randrange(5, 10))]))
        # the SAME input before and after an edit of the object: x, edit, x (a fast path for "same header as last time")
        for x in pool["load_ok"][:4] + pool["unwrap_ok_A"][:1] + pool["unwrap_ok_B"][:1] + pool["unwrap_ok_D"][:1] + pool.get("unwrap_foreign_C", [])[:1]:
            for edit in (pool["set_field"][0], pool["set_field"][3], pool["set_field"][6], pool["set_block"][0], pool["del_block"][0], pool["wrap"][0], pool["load_fail"][0]):
                seqs.append((kbpk, [x, edit, x, ("S",)]))
                seqs.append((kbpk, [x, edit, edit, x, pool["wrap"][0]]))
        for x in pool["load_classes"]:
            for y in pool["load_classes"]:
                if x != y:
                    seqs.append((kbpk, [x, y, ("S",)]))
        # the KBPK replaced (by another key of the same length) between two unwraps / wraps of every version
        other = rng.randbytes(len(kbpk))
        for vv in "ABCD":
            for x in pool["unwrap_ok_" + vv][:2]:
                seqs.append((kbpk, [x, ("K", other), x, ("K", kbpk), x, pool["wrap"][0], ("K", other), pool["wrap"][0], x]))
    # ---- correspondence: reused implementation object vs fold_left step of the model
    both, mops = t.run_both(seqs)
    nontriv = set()
    for (kbpk, ops), (impl, model) in zip(seqs, both):
        ih, iouts = impl
        mh, mouts = model
        # wrap outputs are random on both sides only through the tape, which was recovered: compare everything
        if (ih, iouts) != (mh, mouts):
            first = next((i for i, (x, y) in enumerate(zip(iouts, mouts)) if x != y), None)
            diffs.append({"kbpk_len": len(kbpk), "ops": [core.op_token(o)[:70] for o in ops], "first_diff_step": first,
                          "impl": [ih[:80]] + [x[:60] for x in iouts], "model": [mh[:80]] + [x[:60] for x in mouts]})
        for o_, out in zip(ops, iouts):
            k = o_[0] + ":" + out.split(":")[0]
            dist[k] = dist.get(k, 0) + 1
        nontriv.add(tuple(core.op_token(o_) for o_ in ops))
    # ---- the property on the implementation: each U / L step on the reused object = same op on a fresh one
    for kbpk, ops in seqs:
        kb = tr31.KeyBlock(kbpk)
        for i, op in enumerate(ops):
            _, outs = None, None
            try:
                if op[0] == "U":
                    out = "bytes:" + core.show(kb.unwrap(op[1]))
                elif op[0] == "L":
                    out = "nat:%d" % kb.header.load(op[1])
                elif op[0] == "W":
                    before = core.show_header(kb.header)
                    s = kb.wrap(op[1], op[2])
                    out = "str"
                    if core.show_header(kb.header) != before:
                        viol.append({"what": "wrap modified the header of a reused object", "input": {"ops": [core.op_token(x)[:80] for x in ops[:i + 1]]},
                                     "expected": before, "observed": core.show_header(kb.header)})
                    # wrap depends only on kbpk + current header values: a fresh object with those values opens to the same
                    h2, k2 = tr31.unwrap(kb.kbpk, s)
                    if k2 != op[1]:
                        viol.append({"what": "wrap on a reused object does not round-trip", "input": {"ops": [core.op_token(x)[:80] for x in ops[:i + 1]]},
                                     "expected": core.show(op[1]), "observed": core.show(k2)})
                    if core.show_header(h2) != before and not any(b.upper() == "PB" for b in dict(kb.header.blocks)):
                        viol.append({"what": "wrap on a reused object leaked state into the key block header",
                                     "input": {"ops": [core.op_token(x)[:80] for x in ops[:i + 1]]}, "expected": before, "observed": core.show_header(h2)})
                elif op[0] == "F":
                    setattr(kb.header, core.FIELDS[op[1]], op[2]); out = "none"
                elif op[0] == "B":
                    core.set_block(kb.header.blocks, op[1], op[2]); out = "none"
                elif op[0] == "D":
                    core.del_block(kb.header.blocks, op[1]); out = "none"
                elif op[0] == "K":
                    kb.kbpk = op[1]; out = "none"
                else:
                    out = "str:" + core.show(str(kb))
            except Exception as e:  # noqa: BLE001
                out = "err:" + core.bucket(e)
            if op[0] in ("U", "L"):
                fh, fout = fresh_outcome(kb.kbpk, op)
                same_out = (out == fout)
                same_hdr = (core.show_header(kb.header) == fh) if not out.startswith("err:") else True
                if not (same_out and same_hdr):
                    viol.append({"what": "outcome on a reused object differs from a fresh object",
                                 "input": {"kbpk": kbpk.hex(), "ops": [core.op_token(x) for x in ops[:i + 1]]},
                                 "expected": [fout[:80], fh[:120]], "observed": [out[:80], core.show_header(kb.header)[:120]]})
    # Blocks.load called directly (the documented "clears all current optional blocks before loading new ones"): count 0 and
    # count > 0 on a populated object
    for n_, text, want in ((0, "", []), (0, "KS04", []), (1, "T104", [("T1", "")]), (2, "T205xKS06ab", [("T2", "x"), ("KS", "ab")])):
        hb = tr31.Header("B", "P0", "T", "E")
        hb.blocks["KS"] = "old"
        hb.blocks["ZZ"] = "older"
        try:
            hb.blocks.load(n_, text)
            got = list(hb.blocks.items())
        except Exception as e:  # noqa: BLE001
            got = repr(e)[:100]
        if got != want:
            viol.append({"what": "Blocks.load on a populated object does not leave exactly the loaded blocks", "input": {"blocks_num": n_, "text": text},
                         "expected": want, "observed": got})
    for (kbpk, ops), (impl, model) in list(zip(seqs, both))[:4]:
        samples.append({"ops": [core.op_token(o_)[:50] for o_ in ops], "outcomes": [x[:40] for x in impl[1]]})
    return {"evaluations": len(seqs), "distinct_nontrivial": len(nontriv), "samples": samples, "distribution": dist,
            "diffs": diffs, "violations": viol,
            "rule": "operation sequences on ONE reused KeyBlock: every ordered pair of op kinds {successful unwrap of each version with "
                    "different blocks/reserved, unwrap failing at each stage, header load ok/failing at each stage, block insert/remove, "
                    "field set, wrap, str}, triples and quadruples (all in thorough, sampled in quick), random longer sequences; compared "
                    "step by step and in the final header with fold_left step of the model; each unwrap/load step also compared with "
                    "the same step on a fresh implementation object; distinct_nontrivial = distinct op sequences"}
