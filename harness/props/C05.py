"""C05 - PIN blocks have exactly the ISO 9564-1 layout."""
from harness import core, oracles as o, framework as fw
from harness.props.pinblock_common import rnd_digits, call, unmask, biased_entropy
from psec import pinblock


def run(ctx):
    rng = ctx.rng
    viol, diffs, samples, dist = [], [], [], {}
    lines, expect = [], []
    evals = 0
    seen = set()

    def bad(what, inp, exp, obs):
        viol.append({"what": what, "input": inp, "expected": exp, "observed": obs})

    pans = [rnd_digits(rng, n) for n in range(13, 25)] + ["0" * 13, "9" * 19, "1234567890123"]
    pans4 = [rnd_digits(rng, n) for n in range(1, 20)] + ["0", "9" * 19, "0" * 12, "1" * 13]
    pans4 += ["0" + rnd_digits(rng, n - 1) for n in range(2, 20)] + ["00" + "".join(rng.choice("123456789") for _ in range(n - 2)) for n in (13, 14, 16, 19)]
    pans += ["0" + rnd_digits(rng, n - 1) for n in (13, 16, 19)] + [rnd_digits(rng, n - 13) + "0000000000000" for n in (13, 16)]
    for L in range(4, 13):
        for rep in range(ctx.n(3, 12)):
            pin = rnd_digits(rng, L) if rep else ("9" * L)
            for pan in (pans if ctx.thorough else rng.sample(pans, 5)):
                seen.add(("f03", pin, pan))
                evals += 2
                b0 = call(pinblock.encode_pinblock_iso_0, pin, pan)
                exp0 = o.from_nibbles(o.xor_nibbles(o.pin_block_nibbles(0, pin), o.pan_block(pan)))
                if b0 != ("OK", exp0):
                    bad("format 0 layout", {"fn": "iso_0", "args": [pin, pan]}, exp0.hex(), repr(b0))
                b3 = call(pinblock.encode_pinblock_iso_3, pin, pan)
                if b3[0] != "OK":
                    bad("format 3 failed", {"fn": "iso_3", "args": [pin, pan]}, "OK", repr(b3))
                else:
                    nib = unmask(b3[1], pan)
                    if nib[: 2 + L] != [3, L] + [int(c) for c in pin] or any(x < 10 for x in nib[2 + L:]) or len(nib) != 16:
                        bad("format 3 layout / fill outside A-F", {"fn": "iso_3", "args": [pin, pan]},
                            "3, L, digits, fill in A..F", b3[1].hex())
                lines.append(core.model_line("encode_pinblock_iso_0", (pin, pan)))
                expect.append("OK " + core.show(exp0))
            b2 = call(pinblock.encode_pinblock_iso_2, pin)
            exp2 = o.from_nibbles(o.pin_block_nibbles(2, pin))
            evals += 1
            if b2 != ("OK", exp2):
                bad("format 2 layout", {"fn": "iso_2", "args": [pin]}, exp2.hex(), repr(b2))
            lines.append(core.model_line("encode_pinblock_iso_2", (pin,)))
            expect.append("OK " + core.show(exp2))
            f4 = call(pinblock.encode_pin_field_iso_4, pin)
            evals += 1
            if f4[0] != "OK" or len(f4[1]) != 16 or o.nibbles(f4[1]) != o.pin_field4_nibbles(pin, f4[1][8:]):
                bad("format 4 PIN field layout", {"fn": "field_4", "args": [pin]}, "4 L digits A.. + 8 bytes", repr(f4))
            else:
                lines.append(core.model_line("encode_pin_field_iso_4", (pin, f4[1][8:])))
                expect.append("OK " + core.show(o.from_nibbles(o.pin_field4_nibbles(pin, f4[1][8:]))))
            for pan4 in (pans4 if ctx.thorough else rng.sample(pans4, 6)):
                seen.add(("f4", pin, pan4))
                key = rng.randbytes(rng.choice((16, 24, 32)))
                e4 = call(pinblock.encipher_pinblock_iso_4, key, pin, pan4)
                evals += 1
                if e4[0] != "OK":
                    bad("format 4 encipher failed", {"fn": "encipher_4", "args": [key.hex(), pin, pan4]}, "OK", repr(e4))
                    continue
                panf = o.from_nibbles(o.pan_field4_nibbles(pan4))
                pf = o.D("aes", key, o.xor(o.D("aes", key, e4[1]), panf))
                if o.nibbles(pf)[:16] != o.pin_field4_nibbles(pin, b"")[:16]:
                    bad("format 4 block is not E(E(PIN field) xor PAN field)", {"fn": "encipher_4", "args": [key.hex(), pin, pan4]},
                        "PIN field prefix " + o.from_nibbles(o.pin_field4_nibbles(pin, b"")[:16]).hex(), pf.hex())
                lines.append(core.model_line("encipher_pinblock_iso_4", (key, pin, pan4, pf[8:])))
                expect.append("OK " + core.show(e4[1]))
    # the same layouts with DEBUG logging enabled in the host application and with PIN / PAN given as instances of a str
    # subclass whose display forms (format / str / repr) are not the digits: only the characters may matter
    with fw.debug_logging():
        for _ in range(ctx.n(60, 400)):
            pin0 = rnd_digits(rng, rng.randrange(4, 13))
            pan0 = rnd_digits(rng, rng.randrange(13, 20))
            pan40 = rnd_digits(rng, rng.randrange(1, 20))
            key = rng.randbytes(rng.choice((16, 24, 32)))
            for wrap_ in (str, fw._Str):
                pin, pan, pan4 = wrap_(pin0), wrap_(pan0), wrap_(pan40)
                how = "DEBUG logging enabled" + ("" if wrap_ is str else ", arguments as str-subclass instances")
                evals += 5
                b0 = call(pinblock.encode_pinblock_iso_0, pin, pan)
                e0 = o.from_nibbles(o.xor_nibbles(o.pin_block_nibbles(0, pin0), o.pan_block(pan0)))
                if b0 != ("OK", e0):
                    bad("format 0 layout (" + how + ")", {"fn": "iso_0", "args": [pin0, pan0]}, e0.hex(), repr(b0))
                b2 = call(pinblock.encode_pinblock_iso_2, pin)
                e2 = o.from_nibbles(o.pin_block_nibbles(2, pin0))
                if b2 != ("OK", e2):
                    bad("format 2 layout (" + how + ")", {"fn": "iso_2", "args": [pin0]}, e2.hex(), repr(b2))
                b3 = call(pinblock.encode_pinblock_iso_3, pin, pan)
                ok3 = b3[0] == "OK" and len(b3[1]) == 8
                if ok3:
                    nib = unmask(b3[1], pan0)
                    ok3 = nib[:2 + len(pin0)] == [3, len(pin0)] + [int(c) for c in pin0] and all(x >= 10 for x in nib[2 + len(pin0):])
                if not ok3:
                    bad("format 3 layout (" + how + ")", {"fn": "iso_3", "args": [pin0, pan0]}, "3, L, digits, fill in A..F", repr(b3))
                g4 = call(pinblock.encode_pan_field_iso_4, pan4)
                x4 = o.from_nibbles(o.pan_field4_nibbles(pan40))
                if g4 != ("OK", x4):
                    bad("format 4 PAN field layout (" + how + ")", {"fn": "pan_field_4", "args": [pan40]}, x4.hex(), repr(g4))
                e4 = call(pinblock.encipher_pinblock_iso_4, key, pin, pan4)
                if e4[0] == "OK":
                    pf = o.D("aes", key, o.xor(o.D("aes", key, e4[1]), x4))
                    if o.nibbles(pf)[:16] != o.pin_field4_nibbles(pin0, b"")[:16]:
                        bad("format 4 block is not E(E(PIN field) xor PAN field) (" + how + ")", {"fn": "encipher_4", "args": [key.hex(), pin0, pan40]},
                            "PIN field prefix " + o.from_nibbles(o.pin_field4_nibbles(pin0, b"")[:16]).hex(), pf.hex())
                else:
                    bad("format 4 encipher failed (" + how + ")", {"fn": "encipher_4", "args": [key.hex(), pin0, pan40]}, "OK", repr(e4))
    # consecutive format 4 calls with PANs of the same length sharing their last 12 digits, their first digits, or everything
    # but one digit (a field memoised on part of the PAN shows only on the SECOND call)
    for ln in range(13, 20):
        base = rnd_digits(rng, ln)
        key = rng.randbytes(16)
        others = [str((int(base[0]) + 1) % 10) + base[1:], base[: ln - 12] [::-1] + base[ln - 12:], base[:-1] + str((int(base[-1]) + 1) % 10),
                  base[:5] + str((int(base[5]) + 7) % 10) + base[6:], base]
        for pan4 in [base] + others:
            for fn_ in ("pan", "block"):
                evals += 1
                if fn_ == "pan":
                    g = call(pinblock.encode_pan_field_iso_4, pan4)
                    exp = o.from_nibbles(o.pan_field4_nibbles(pan4))
                    if g != ("OK", exp):
                        bad("format 4 PAN field layout (call following a call with a neighbouring PAN)", {"fn": "pan_field_4", "args": [pan4], "previous": base}, exp.hex(), repr(g))
                else:
                    e4 = call(pinblock.encipher_pinblock_iso_4, key, "1234", pan4)
                    if e4[0] == "OK":
                        pf = o.D("aes", key, o.xor(o.D("aes", key, e4[1]), o.from_nibbles(o.pan_field4_nibbles(pan4))))
                        if o.nibbles(pf)[:16] != o.pin_field4_nibbles("1234", b"")[:16]:
                            bad("format 4 block is not E(E(PIN field) xor PAN field) (call following a call with a neighbouring PAN)",
                                {"fn": "encipher_4", "args": [key.hex(), "1234", pan4], "previous": base}, "PIN field prefix", pf.hex())
    for ln in range(13, 20):      # the same for formats 0 / 3 (PAN block memoised on part of the PAN)
        base = rnd_digits(rng, ln)
        for pan in [base, str((int(base[0]) + 1) % 10) + base[1:], base[:-1] + str((int(base[-1]) + 1) % 10), base[:-2] + str((int(base[-2]) + 1) % 10) + base[-1],
                    base[:ln - 13] + str((int(base[ln - 13]) + 1) % 10) + base[ln - 12:], base]:
            evals += 1
            b0 = call(pinblock.encode_pinblock_iso_0, "4321", pan)
            e0 = o.from_nibbles(o.xor_nibbles(o.pin_block_nibbles(0, "4321"), o.pan_block(pan)))
            if b0 != ("OK", e0):
                bad("format 0 layout (call following a call with a neighbouring PAN)", {"fn": "iso_0", "args": ["4321", pan], "previous": base}, e0.hex(), repr(b0))
    # AES keys that are also valid hex / decimal text (a binary key must never be re-interpreted as text)
    from harness import gens as G
    for ks in (16, 24, 32):
        for _ in range(ctx.n(6, 30)):
            key = G.text_like_bytes(rng, ks)
            pin, pan4 = rnd_digits(rng, rng.randrange(4, 13)), rng.choice(pans4)
            e4 = call(pinblock.encipher_pinblock_iso_4, key, pin, pan4)
            evals += 1
            if e4[0] != "OK":
                bad("format 4 encipher failed", {"fn": "encipher_4", "args": [key.hex(), pin, pan4]}, "OK", repr(e4))
                continue
            panf = o.from_nibbles(o.pan_field4_nibbles(pan4))
            pf = o.D("aes", key, o.xor(o.D("aes", key, e4[1]), panf))
            if o.nibbles(pf)[:16] != o.pin_field4_nibbles(pin, b"")[:16]:
                bad("format 4 block is not E(E(PIN field) xor PAN field) under the given (text-like) key", {"fn": "encipher_4", "args": [key.hex(), pin, pan4]},
                    "PIN field prefix " + o.from_nibbles(o.pin_field4_nibbles(pin, b"")[:16]).hex(), pf.hex())
            lines.append(core.model_line("encipher_pinblock_iso_4", (key, pin, pan4, pf[8:])))
            expect.append("OK " + core.show(e4[1]))
    for pan4 in pans4:
        evals += 1
        seen.add(("pan4", pan4))
        g = call(pinblock.encode_pan_field_iso_4, pan4)
        exp = o.from_nibbles(o.pan_field4_nibbles(pan4))
        if g != ("OK", exp):
            bad("format 4 PAN field layout", {"fn": "pan_field_4", "args": [pan4]}, exp.hex(), repr(g))
        lines.append(core.model_line("encode_pan_field_iso_4", (pan4,)))
        expect.append("OK " + core.show(exp))
    from harness.props.pinblock_common import threaded_fixed_pairs
    dist["format_0_3_calls_in_tight_threaded_loops"] = threaded_fixed_pairs(ctx.rng, viol, iters=ctx.n(12000, 50000))
    evals += dist["format_0_3_calls_in_tight_threaded_loops"]
    from harness.props.pinblock_common import threaded_encoders
    dist["encoder_calls_under_threads"] = threaded_encoders(ctx.rng, viol)
    evals += dist["encoder_calls_under_threads"]
    from harness.props.pinblock_common import after_rejected_calls
    dist["calls_after_rejected_calls"] = after_rejected_calls(rng, viol)
    evals += dist["calls_after_rejected_calls"]
    bv, bcalls = biased_entropy(ctx, "layout")
    viol += bv
    evals += bcalls
    dist["extreme_fill_calls"] = bcalls
    for line, exp, got in zip(lines, expect, core.run_model(lines)):
        if got != exp:
            diffs.append({"request": line, "reference": exp, "model": got})
        elif len(samples) < 5:
            samples.append({"request": line, "reference": exp, "model": got})
    return {"evaluations": evals, "distinct_nontrivial": len(seen), "samples": samples, "distribution": dist,
            "diffs": diffs, "violations": viol,
            "rule": "all PIN lengths 4..12 x PAN lengths 13..24 (formats 0/3) and 1..19 (format 4) x digit patterns x AES key "
                    "sizes; every output nibble of the implementation AND of the model compared with a from-the-standard "
                    "nibble construction (harness/oracles.py); distinct_nontrivial = distinct (format, PIN, PAN)"}
