"""C13 - TR-31 key block length does not reveal the key length within the mask."""
from harness import core, framework as fw
from harness.props import tr31_common as t
from psec import tr31


def eff_mask(alg, mask, keylen):
    if mask is None:
        return {"T": 24, "D": 24, "A": 32}.get(alg, keylen)
    return mask


def run(ctx):
    rng = ctx.rng
    viol, diffs, dist, samples = [], [], {}, []
    evals = 0
    seen = set()
    lines, expect = [], []
    masks = [None] + list(range(-8, 65) if ctx.thorough else [-8, -1, 0, 1, 6, 7, 8, 9, 14, 15, 16, 17, 22, 23, 24, 25, 30, 31, 32, 33, 46, 47, 62, 64])
    keylens = range(0, 65) if ctx.thorough else list(range(0, 36)) + [40, 45, 46, 47, 48, 56, 61, 62, 63, 64]
    layouts = [[], [("KS", "00604B120F9292800000")], [("T1", "x" * 252), ("T2", "")]]
    for v in "ABCD":
        bs, ml = t.BS[v], t.MACLEN[v]
        kbpk = rng.randbytes(t.KBPK_SIZES[v][-1])
        for alg in ("T", "D", "A", "R", "0"):
            for li, blocks in enumerate(layouts if ctx.thorough else layouts[:2]):
                h = tr31.Header(v, "P0", alg, "E", "00", "N")
                for bid, data in blocks:
                    h.blocks[bid] = data
                hl = len(str(h))
                for mask in masks:
                    lens = {}
                    order = list(keylens)
                    rng.shuffle(order)          # not ascending: state left by a longer key must not affect a shorter one
                    for kl in order:
                        key = bytes(kl)
                        try:
                            # every other mask as an int-subclass instance (IntEnum members, bools and user subclasses are ints)
                            kb = tr31.wrap(kbpk, h, key, fw._Int(mask) if (mask is not None and kl % 2) else mask)
                        except Exception as e:  # noqa: BLE001
                            viol.append({"what": "wrap failed", "input": {"v": v, "alg": alg, "mask": mask, "key_len": kl},
                                         "expected": "OK", "observed": repr(e)[:100]})
                            continue
                        evals += 1
                        enc_bytes = (len(kb) - hl - 2 * ml) // 2
                        m = max(eff_mask(alg, mask, kl), kl)
                        if not (2 + m < enc_bytes + 0 and enc_bytes <= 2 + m + bs) or enc_bytes % bs:
                            viol.append({"what": "encrypted section size outside (2+mask, 2+mask+block]",
                                         "input": {"v": v, "alg": alg, "mask": mask, "key_len": kl}, "expected": [2 + m + 1, 2 + m + bs],
                                         "observed": enc_bytes})
                        if kl <= eff_mask(alg, mask, kl):
                            lens.setdefault(eff_mask(alg, mask, kl), set()).add(len(kb))
                        seen.add((v, alg, mask, kl, li))
                        if rng.random() < (0.02 if not ctx.thorough else 0.005):
                            lines.append((kbpk, v, alg, blocks, key, mask, kb))
                    for em, ls in lens.items():
                        if len(ls) != 1:
                            viol.append({"what": "key block length depends on the key length within the mask",
                                         "input": {"v": v, "alg": alg, "mask": mask, "layout": li}, "expected": "one length", "observed": sorted(ls)})
                    dist["%s:%s" % (v, alg)] = dist.get("%s:%s" % (v, alg), 0) + 1
    # every algorithm id (all 62 alphanumeric characters): only T, D and A have a default mask; with the mask omitted every
    # other id must be wrapped unmasked (through both entry points), with an explicit mask like any other
    for v in "ABCD":
        bs, ml = t.BS[v], t.MACLEN[v]
        kbpk = rng.randbytes(t.KBPK_SIZES[v][-1])
        for alg in t.ALNUM:
            # the field values as equal-but-not-identical strings (a str subclass): nothing may hinge on `is`
            h = tr31.Header(fw._Str(v), fw._Str("P0"), fw._Str(alg), "E", "00", "N")
            hl = len(str(h))
            for mask in (None, 40):
                for kl in (0, 5, 16, 24, 33, 64):
                    key = bytes(kl)
                    for entry in ("function", "method"):
                        try:
                            kb = tr31.wrap(kbpk, h, key, mask) if entry == "function" else tr31.KeyBlock(kbpk, h).wrap(key, mask)
                        except Exception as e:  # noqa: BLE001
                            viol.append({"what": "wrap failed", "input": {"v": v, "alg": alg, "mask": mask, "key_len": kl, "entry": entry},
                                         "expected": "OK", "observed": repr(e)[:100]})
                            continue
                        evals += 1
                        enc_bytes = (len(kb) - hl - 2 * ml) // 2
                        m = max(eff_mask(alg, mask, kl), kl)
                        if not (2 + m < enc_bytes and enc_bytes <= 2 + m + bs) or enc_bytes % bs:
                            viol.append({"what": "encrypted section size outside (2+mask, 2+mask+block] (algorithm id sweep)",
                                         "input": {"v": v, "alg": alg, "mask": mask, "key_len": kl, "entry": entry}, "expected": [2 + m + 1, 2 + m + bs],
                                         "observed": enc_bytes})
        dist["%s:all_algorithm_ids" % v] = len(t.ALNUM)
    # correspondence on a sample: the model, given the recovered tape, emits the same text (hence the same length)
    cases = []
    for kbpk, v, alg, blocks, key, mask, kb in lines:
        ops = [("L", v + "0000P0" + alg + "E00N0000")] + [("B", b, d) for b, d in blocks] + [("W", key, mask)]
        cases.append((kbpk, ops, kb))
    fake = [("", ["nat:16"] + ["none"] * (len(ops) - 2) + ["str:" + core.show(kb)]) for _, ops, kb in cases]
    mops = core.with_tapes([(k, ops) for k, ops, _ in cases], fake)
    mres = [core.parse_model_run(l) for l in core.run_model([core.model_run_line(k, ops) for k, ops in mops])]
    for (kbpk, ops, kb), (mh, mouts) in zip(cases, mres):
        if mouts[-1:] != ["str:" + core.show(kb)]:
            diffs.append({"ops": [str(o_)[:60] for o_ in ops], "impl_len": len(kb), "model": mouts[-1][:80]})
        elif len(samples) < 4:
            samples.append({"header": ops[0][1], "key_len": len(ops[-1][1]), "mask": ops[-1][2], "key_block_len": len(kb)})
    # --- headers so large that masking decides whether the block fits: every key within the mask must meet the SAME fate
    for v in "ABCD":
        for dl in range(9860, 9970, 8):
            h = tr31.Header(v, "P0", "T", "E", "00", "N")
            h.blocks["T1"] = "x" * dl
            fates = set()
            for kl in (0, 8, 16, 24):
                evals += 1
                try:
                    fates.add(("ok", len(tr31.wrap(rng.randbytes(16), h, bytes(kl)))))
                except tr31.HeaderError:
                    fates.add(("HeaderError",))
                except Exception as e:  # noqa: BLE001
                    fates.add((type(e).__name__,))
            if len(fates) != 1:
                viol.append({"what": "near the 9999-character limit the outcome of wrap depends on the key length within the mask",
                             "input": {"v": v, "alg": "T", "mask": None, "optional_block_data_length": dl, "key_lengths": [0, 8, 16, 24]},
                             "expected": "one outcome for all four keys", "observed": sorted(map(str, fates))})
    # --- a reused KeyBlock whose algorithm (hence default mask) changes between wraps: lengths must follow the CURRENT algorithm
    seqs = []
    for v in "ABCD":
        for a1, a2 in (("T", "A"), ("A", "T"), ("R", "A"), ("D", "R"), ("A", "0")):
            kbpk = rng.randbytes(16)
            ops = [("L", v + "0000P0" + a1 + "E00N0000"), ("W", bytes(16), None), ("F", 2, a2)] + [("W", bytes(kl), None) for kl in (8, 16, 24, 32)] \
                + [("L", v + "0000P0" + a1 + "E00N0000"), ("W", bytes(24), None)]
            seqs.append((kbpk, ops))
    both, _ = t.run_both(seqs)
    for (kbpk, ops), (impl, model) in zip(seqs, both):
        if impl != model:
            diffs.append({"sequence": [core.op_token(o_)[:40] for o_ in ops], "impl": [len(x) for x in impl[1]], "model": [len(x) for x in model[1]]})
        alg = None
        for o_, out in zip(ops, impl[1]):
            if o_[0] == "L":
                alg, v = o_[1][7], o_[1][0]
            if o_[0] == "F" and o_[1] == 2:
                alg = o_[2]
            if o_[0] == "W" and out.startswith("str:"):
                evals += 1
                fresh = tr31.wrap(kbpk, v + "0000P0" + alg + "E00N0000", o_[1], None)
                if len(core.unshow_str(out[4:])) != len(fresh):
                    viol.append({"what": "key block length on a reused object differs from a fresh object with the same header (stale mask)",
                                 "input": {"ops": [core.op_token(x)[:60] for x in ops]}, "expected": len(fresh), "observed": len(core.unshow_str(out[4:]))})
    dist["algorithm_switch_sequences"] = len(seqs)
    tv, tcalls = t.threaded_wraps(ctx.rng, "length", rounds=1 if not ctx.thorough else 3)
    viol += tv
    evals += tcalls
    dist["wraps_on_shared_object_under_threads"] = tcalls
    return {"evaluations": evals, "distinct_nontrivial": len(seen), "samples": samples, "distribution": dist,
            "diffs": diffs, "violations": viol, "exhaustive": bool(ctx.thorough),
            "rule": "versions A-D x algorithms {T,D,A,R,0} x mask {None, -8..64} x key lengths 0..64 x block layouts "
                    "(subsampled in quick, exhaustive in thorough): equal key block length for all keys within the effective "
                    "mask, encrypted section in (2+m, 2+m+block]; a random sample re-run on the model with the recovered tape "
                    "must reproduce the text; distinct_nontrivial = distinct (version, algorithm, mask, key length, layout)",
            "model_cases": len(cases)}
