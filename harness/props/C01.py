"""C01 - TR-31 wrap then unwrap returns the original key and header."""
from harness import core, framework as fw
from harness.props import tr31_common as t
from psec import tr31


def gen(ctx):
    rng = ctx.rng
    cases = []
    for v in "ABCD":
        for prof in ("none", "few", "boundary", "many", "big"):
            for _ in range(ctx.n(3, 14) if prof in ("none", "few", "boundary") else ctx.n(1, 4)):
                cases.append(t.gen_case(rng, version=v, profile=prof))
        # every residue of 2+len modulo the block, each mask class
        for kl in range(0, 34 if ctx.thorough else 18):
            cases.append(t.gen_case(rng, version=v, profile="none", keylen=kl))
        for kl in (ctx.rng.sample(range(40, 4900), 6) if ctx.thorough else [1200, 4700, 4900]):
            cases.append(t.gen_case(rng, version=v, profile="none", keylen=kl, mask=None))
        for prof in ("ws_aligned",):
            for _ in range(ctx.n(2, 8)):
                cases.append(t.gen_case(rng, version=v, profile=prof))
    cases += t.selfref_cases(rng)
    return cases


def run(ctx):
    cases = gen(ctx)
    viol, diffs, dist, samples = [], [], {}, []
    seen = set()
    # --- implementation: wrap, unwrap, header untouched
    impl_rows = []
    for c in cases:
        h = t.impl_header(c)
        before = core.show_header(h)
        try:
            kb = tr31.wrap(c["kbpk"], h, c["key"], c["mask"])
            w = ("OK", kb)
        except Exception as e:  # noqa: BLE001
            w = ("ERR", core.bucket(e))
        after = core.show_header(h)
        inp = {"kbpk": c["kbpk"].hex(), "hdr16": c["hdr16"], "blocks": c["blocks"] if len(c["blocks"]) < 6 else
               [[b[0], len(b[1])] for b in c["blocks"]], "key": c["key"].hex() if len(c["key"]) < 80 else len(c["key"]), "mask": c["mask"]}
        key = "%s:%s" % (c["version"], w[0] if w[0] == "OK" else w[1])
        dist[key] = dist.get(key, 0) + 1
        if after != before:
            viol.append({"what": "wrap modified the caller's header", "input": inp, "expected": before, "observed": after})
        u = None
        if w[0] == "OK":
            seen.add((c["version"], len(c["kbpk"]), len(c["key"]), c["mask"], len(c["blocks"])))
            u = t.impl_unwrap(c["kbpk"], w[1])
            if u != ("OK", before, core.show(c["key"])):
                viol.append({"what": "unwrap(wrap(x)) does not return the original key and header", "input": inp,
                             "expected": ["OK", before, core.show(c["key"])[:80]], "observed": [str(x)[:200] for x in u]})
        impl_rows.append((w, u, before))
    # --- model: same wrap with the tape recovered from the impl block, then its own unwrap
    ops_cases = [(c["kbpk"], t.setup_ops(c) + [("W", c["key"], c["mask"])]) for c in cases]
    fake_impl = []
    for c, (w, u, before) in zip(cases, impl_rows):
        outs = ["nat:16"] + ["none"] * len(c["blocks"]) + [("str:" + core.show(w[1])) if w[0] == "OK" else "err:" + w[1]]
        fake_impl.append((before, outs))
    mops = core.with_tapes(ops_cases, fake_impl)
    mres = [core.parse_model_run(l) for l in core.run_model([core.model_run_line(k, ops) for k, ops in mops])]
    mkbs = []
    for (mh, mouts), (w, u, before) in zip(mres, impl_rows):
        mkbs.append(core.unshow_str(mouts[-1][4:]) if mouts and mouts[-1].startswith("str:") else None)
    mun = t.model_unwrap([(c["kbpk"], kb) for c, kb in zip(cases, mkbs) if kb is not None])
    it = iter(mun)
    for c, (mh, mouts), kb, (w, u, before) in zip(cases, mres, mkbs, impl_rows):
        m_w = "OK" if kb is not None else (mouts[-1] if mouts else "BAD")
        i_w = "OK" if w[0] == "OK" else "err:" + w[1]
        mu = next(it) if kb is not None else None
        # projection: wrap verdict, and unwrap(wrap(x)) = (header, key); the block text itself is C03's business
        if m_w != i_w or (mu is not None and u is not None and mu != u) or mh != before:
            diffs.append({"hdr16": c["hdr16"], "kbpk_len": len(c["kbpk"]), "key_len": len(c["key"]), "mask": c["mask"],
                          "nblocks": len(c["blocks"]), "impl": [i_w, str(u)[:160]], "model": [m_w, str(mu)[:160], mh[:80]]})
        elif len(samples) < 4 and kb is not None:
            samples.append({"hdr16": c["hdr16"], "nblocks": len(c["blocks"]), "key_len": len(c["key"]), "mask": c["mask"],
                            "key_block_len": len(kb), "roundtrip": "ok on impl and model"})
    # --- one reused KeyBlock: wrap, reassign kbpk / change fields, wrap again; each block must open with the then-current kbpk
    rng = ctx.rng
    seqs = []
    for v in "ABCD":
        for _ in range(ctx.n(4, 20)):
            c = t.gen_case(rng, version=v, profile=rng.choice(["none", "few"]), keylen=rng.choice([8, 16, 24]), mask=None)
            k2 = rng.randbytes(len(c["kbpk"]))
            k3 = rng.randbytes(rng.choice(t.KBPK_SIZES[v]))
            key2 = rng.randbytes(16)
            ops = t.setup_ops(c) + [("W", c["key"], c["mask"]), ("K", k2), ("W", key2, None), ("K", k3), ("W", c["key"], 40),
                                    ("K", c["kbpk"]), ("W", key2, None)]
            seqs.append((c["kbpk"], ops))
    # ... and with the header's version switched between wraps (blocks untouched), under a KBPK valid for every version
    for v1, v2 in (("B", "D"), ("A", "D"), ("D", "B"), ("C", "D"), ("D", "A"), ("B", "C")):
        for prof in ("few", "boundary"):
            c = t.gen_case(rng, version=v1, profile=prof, keylen=16, mask=None)
            c["kbpk"] = rng.randbytes(rng.choice((16, 24)))
            ops = t.setup_ops(c) + [("S",), ("W", c["key"], None), ("F", 0, v2), ("W", c["key"], None), ("S",), ("F", 0, v1), ("W", c["key"], 30)]
            seqs.append((c["kbpk"], ops))
    # ... and unwraps on one reused object: genuine blocks sharing optional-block ids in a different order
    #     (the header returned by the second unwrap must be the second original, in ids, data AND order)
    expect_after = {}
    for v in "ABCD":
        for _ in range(ctx.n(3, 12)):
            c1 = t.gen_case(rng, version=v, profile="few", keylen=rng.choice([8, 16, 24]), mask=None)
            while len(c1["blocks"]) < 2:
                c1 = t.gen_case(rng, version=v, profile="few", keylen=16, mask=None)
            c1["kbpk"] = rng.randbytes(rng.choice((16, 24)))
            c2 = dict(c1)
            perm = c1["blocks"][:]
            while perm == c1["blocks"]:
                rng.shuffle(perm)
            extra = [(t.gen_block_id(rng, set(b[0] for b in perm)), "n")] if rng.random() < 0.5 else []
            c2["blocks"] = [(b[0], t.rstr(rng, rng.randrange(0, 9), t.PRINT)) for b in perm[:rng.randrange(2, len(perm) + 1)]] + extra
            c2["hdr16"] = t.gen_case(rng, version=rng.choice("ABCD"), profile="none")["hdr16"]
            c2["key"] = rng.randbytes(rng.choice([8, 16, 24]))
            try:
                g1 = tr31.wrap(c1["kbpk"], t.impl_header(c1), c1["key"])
                g2 = tr31.wrap(c1["kbpk"], t.impl_header(c2), c2["key"])
            except Exception:  # noqa: BLE001
                continue
            bad = g1[:-1] + ("0" if g1[-1] != "0" else "1")
            ops = rng.choice([[("U", g1), ("S",), ("U", g2), ("S",)], [("U", g1), ("U", bad), ("U", g2), ("S",)],
                              [("U", g2), ("U", g1), ("S",), ("U", g2)], [("L", g1[:16 + sum(len(b[1]) + 4 for b in c1["blocks"])]), ("U", g2)]])
            last_u = max(i for i, o_ in enumerate(ops) if o_[0] == "U")
            want = t.impl_header(c2 if ops[last_u][1] == g2 else c1)
            expect_after[len(seqs)] = (core.show_header(want), core.show(c2["key"] if ops[last_u][1] == g2 else c1["key"]), last_u)
            seqs.append((c1["kbpk"], ops))
    both, mops = t.run_both(seqs)
    for si, (want_h, want_k, last_u) in expect_after.items():
        kbpk, ops = seqs[si]
        h, outs = core.impl_run_ops(kbpk, ops[:last_u + 1])
        # a pad block may be present in neither original (the impl drops PB on load): plain comparison
        if outs[-1] != "bytes:" + want_k or h != want_h:
            viol.append({"what": "unwrap on a reused object does not return the original key and header (ids, data, order)",
                         "input": {"kbpk": kbpk.hex(), "ops": [core.op_token(x)[:300] for x in ops[:last_u + 1]]},
                         "expected": [want_k, want_h[:200]], "observed": [outs[-1][:80], h[:200]]})
    for (kbpk, ops), (impl, model) in zip(seqs, both):
        if impl != model:
            diffs.append({"sequence": [core.op_token(o_)[:60] for o_ in ops], "impl": [impl[0][:80]] + [x[:50] for x in impl[1]],
                          "model": [model[0][:80]] + [x[:50] for x in model[1]]})
        cur = kbpk
        for o_, out in zip(ops, impl[1]):
            if o_[0] == "K":
                cur = o_[1]
            if o_[0] == "W" and out.startswith("str:"):
                u = t.impl_unwrap(cur, core.unshow_str(out[4:]))
                if u[0] != "OK" or u[2] != core.show(o_[1]):
                    viol.append({"what": "key block wrapped by a reused object (after kbpk reassignment) does not unwrap with the current KBPK",
                                 "input": {"kbpk": kbpk.hex(), "ops": [core.op_token(x)[:120] for x in ops]},
                                 "expected": core.show(o_[1]), "observed": [str(x)[:80] for x in u]})
    dist["reused_object_sequences"] = len(seqs)
    tv, tcalls = t.threaded_wraps(ctx.rng, "roundtrip", rounds=1 if not ctx.thorough else 2)
    viol += tv
    dist["wraps_on_shared_object_under_threads"] = tcalls
    return {"evaluations": len(cases) + len(seqs) + tcalls, "distinct_nontrivial": len(seen), "samples": samples, "distribution": dist,
            "diffs": diffs, "violations": viol,
            "rule": "versions A-D x admissible KBPK sizes x header alphabets incl. non-default reserved x block layouts (none/few/"
                    "251-252 boundary and extended/97-100 blocks/near 9999 total) x key lengths (every residue, up to 4900) x mask "
                    "{None, negative, below, equal, above}; impl: unwrap(wrap(x)) = (header, key) and header unchanged; model run "
                    "with the recovered tape must give the same wrap verdict and unwrap result; plus wrap sequences on one reused "
                    "KeyBlock with kbpk reassigned in between (each block must open under the then-current KBPK; impl = model); distinct_nontrivial = distinct "
                    "successful (version, kbpk size, key length, mask, block count)"}
