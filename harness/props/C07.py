"""C07 - CBC-MAC and retail MAC are ISO 9797-1 algorithms 1 and 3."""
from harness import core, oracles as o, framework as fw


def check_impl(fn, args, out):
    if fn == "generate_cbc_mac":
        key, data, padding, length, is_aes = args
        kind = "aes" if is_aes else "des"
        bs = o.bsize(kind)
        if padding not in (1, 2, 3):
            return None if out == ("ERR", "ValueError") else {"what": "unknown padding accepted", "expected": "ValueError", "observed": list(out)}
        if len(key) not in ((16, 24, 32) if is_aes else (8, 16, 24)):
            return None if out == ("ERR", "ValueError") else {"what": "bad key accepted", "expected": "ValueError", "observed": list(out)}
        full = o.alg1(kind, key, o.pad(padding, data, bs))
        exp = full[: bs if length is None else length]
    else:
        k1, k2, data, padding, length = args
        if padding not in (1, 2, 3):
            return None if out == ("ERR", "ValueError") else {"what": "unknown padding accepted", "expected": "ValueError", "observed": list(out)}
        if len(k1) not in (8, 16, 24) or len(k2) not in (8, 16, 24):
            return None if out == ("ERR", "ValueError") else {"what": "bad key accepted", "expected": "ValueError", "observed": list(out)}
        full = o.alg3(k1, k2, o.pad(padding, data, 8))
        exp = full[: 8 if length is None else length]
    if out != ("OK", core.show(exp)):
        return {"what": "MAC differs from ISO 9797-1", "expected": core.show(exp), "observed": list(out)}
    return None


def run(ctx):
    rng = ctx.rng
    cases = []
    for is_aes in (False, True):
        bs = 16 if is_aes else 8
        sizes = (16, 24, 32) if is_aes else (8, 16, 24)
        for ks in sizes:
            lens = range(0, 5 * bs + 2) if ctx.thorough else list(range(0, 2 * bs + 2)) + [3 * bs - 1, 3 * bs, 5 * bs]
            for n in lens:
                for padding in (1, 2, 3):
                    length = rng.choice([None] + list(range(1, bs + 1)))
                    cases.append(("generate_cbc_mac", (rng.randbytes(ks), rng.randbytes(n), padding, length, is_aes)))
        for length in list(range(1, bs + 1)) + [None]:
            cases.append(("generate_cbc_mac", (rng.randbytes(sizes[0]), rng.randbytes(bs + 3), 2, length, is_aes)))
        for padding in (0, 4, 5, 255):
            cases.append(("generate_cbc_mac", (rng.randbytes(sizes[0]), b"abc", padding, None, is_aes)))
        for ks in (0, 7, 9, 12, 33):
            cases.append(("generate_cbc_mac", (rng.randbytes(ks), b"abc", 1, None, is_aes)))
    for k1s in (8, 16, 24):
        for k2s in (8, 16, 24):
            lens = range(0, 42) if ctx.thorough else list(range(0, 18)) + [23, 24, 25, 40]
            for n in lens:
                for padding in (1, 2, 3):
                    length = rng.choice([None] + list(range(1, 9)))
                    cases.append(("generate_retail_mac", (rng.randbytes(k1s), rng.randbytes(k2s), rng.randbytes(n), padding, length)))
    for padding in (0, 4, 9):
        cases.append(("generate_retail_mac", (rng.randbytes(8), rng.randbytes(8), b"x", padding, None)))
    for a, b in ((7, 8), (8, 9), (0, 8), (8, 0), (8, 32)):
        cases.append(("generate_retail_mac", (rng.randbytes(a), rng.randbytes(b), b"hello world", 1, None)))
    # data ending in 0x80 / 0x00
    for tail in (b"\x80", b"\x00", b"\x80\x00\x00"):
        d = rng.randbytes(13) + tail
        cases.append(("generate_cbc_mac", (rng.randbytes(16), d, 2, None, False)))
        cases.append(("generate_retail_mac", (rng.randbytes(16), rng.randbytes(16), d, 2, None)))
    from harness import gens
    # structured keys (repeated components) and neighbours under the same key
    for ks in (16, 24):
        for _ in range(12):
            cases.append(("generate_retail_mac", (gens.key(rng, ks), gens.key(rng, ks), rng.randbytes(rng.randrange(0, 9)), rng.choice((1, 2)), None)))
            cases.append(("generate_cbc_mac", (gens.key(rng, ks), rng.randbytes(rng.randrange(0, 20)), rng.choice((1, 2, 3)), None, False)))
    # DES weak / semi-weak key components in every position (the standard defines the MAC for them like for any key),
    # structured messages (all-zero, repeated block, 0x80 tails)
    for w in gens.WEAK_DES:
        r8 = rng.randbytes(8)
        for key in (w, w + r8, r8 + w, w + w, w + r8 + w, r8 + r8 + w, r8 + w + rng.randbytes(8)):
            d = gens.special_bytes(rng, rng.randrange(0, 33))
            cases.append(("generate_cbc_mac", (key, d, rng.choice((1, 2, 3)), None, False)))
        cases.append(("generate_retail_mac", (w, rng.randbytes(8), gens.special_bytes(rng, 17), 1, None)))
        cases.append(("generate_retail_mac", (rng.randbytes(8), w, gens.special_bytes(rng, 16), 2, None)))
        cases.append(("generate_retail_mac", (w + r8, r8 + w, gens.special_bytes(rng, 8), 3, 4)))
    # distinct keys with equal key check values (2- and 3-byte KCV), and keys that differ only in parity bits
    for ks in (8, 16, 24):
        for nb in (2, 3):
            pair = gens.kcv_colliding_pair(rng, ks, nb)
            if pair:
                for d in (rng.randbytes(5), rng.randbytes(8), gens.special_bytes(rng, 24)):
                    cases.append(("generate_retail_mac", (pair[0], pair[1], d, rng.choice((1, 2, 3)), None)))
                    cases.append(("generate_retail_mac", (pair[1], pair[0], d, 1, 4)))
        k = rng.randbytes(ks)
        kpar = bytes(b ^ 1 for b in k)
        cases.append(("generate_retail_mac", (k, kpar, rng.randbytes(11), 2, None)))
        cases.append(("generate_retail_mac", (k, k, rng.randbytes(11), 1, None)))
        # key1 == key2 (algorithm 3 then equals algorithm 1 over the SAME padded message): every padding method, (un)aligned data
        for padding in (1, 2, 3):
            for n in (0, 3, 8, 11, 16):
                cases.append(("generate_retail_mac", (k, bytes(k), rng.randbytes(n), padding, None)))
    for alg_aes in (False, True):
        for n in (0, 1, 8, 16, 24, 32, 33):
            for _ in range(2):
                cases.append(("generate_cbc_mac", (gens.key(rng, 16), gens.special_bytes(rng, n), rng.choice((1, 2, 3)), None, alg_aes)))
    for padding in (-3, -2, -1, 0, 4, 5):
        cases.append(("generate_cbc_mac", (rng.randbytes(16), b"abc", padding, None, True)))
        cases.append(("generate_retail_mac", (rng.randbytes(16), rng.randbytes(16), b"abc", padding, None)))
    cases = fw.with_history(rng, cases, gens.variants_generic(rng), fraction=0.05, limit=40)
    model_cases = [c for c in cases if not (c[0] == "generate_cbc_mac" and c[1][2] < 0) and not (c[0] == "generate_retail_mac" and c[1][3] < 0)]
    neg = [c for c in cases if c not in model_cases]
    res = fw.call_result(
        model_cases, check_impl=check_impl, nontrivial=lambda fn, a, o_: o_[0] == "OK",
        rule="all DES/AES key sizes x message lengths 0..2 blocks+ (0..5 blocks in thorough), every residue x padding "
             "1,2,3 x output lengths; independent key1/key2 sizes for the retail MAC; unknown paddings and bad key sizes; "
             "oracle = single-block OpenSSL ECB with hand chaining (ISO 9797-1 algorithms 1 and 3); "
             "non-trivial = distinct successful calls")
    from fractions import Fraction
    for pad_ in (1.5, 2.25, 3.999, 0.5, 2.0000001, Fraction(7, 2), Fraction(3, 2), float("nan"), float("inf"), 1 + 0.5j, "2", b"\x02", None, [1], (2,)):
        for fn, args in (("generate_cbc_mac", (rng.randbytes(16), b"abcdefgh", pad_, None, False)), ("generate_retail_mac", (rng.randbytes(8), rng.randbytes(8), b"abcdefgh", pad_, None))):
            out = core.impl_call(fn, args)
            res["evaluations"] += 1
            if out[0] == "OK" or out[1] not in ("ValueError", "Other:TypeError"):
                res["violations"].append({"what": "a padding selector that is not one of the integers 1, 2, 3 was not rejected", "expected": "ValueError",
                                          "observed": list(out), "input": {"fn": fn, "padding": repr(pad_)}})
    for fn, args in neg:       # negative padding numbers: outside the model's typed domain, implementation only
        out = core.impl_call(fn, args)
        v = check_impl(fn, args, out)
        res["evaluations"] += 1
        if v:
            v["input"] = {"fn": fn, "args": [core.show(a) for a in args]}
            res["violations"].append(v)
    # a message of exactly 2^26 bytes (a multiple of every power-of-two segment size up to 64 MiB), AES: the reference here is one
    # OpenSSL CBC pass over the padded message (hand chaining of four million blocks is out of reach), compared on the last block
    from cryptography.hazmat.primitives.ciphers import Cipher as _C, algorithms as _A, modes as _M
    for n, padding in ((2 ** 26, 1), (2 ** 26, 3)) if not ctx.thorough else ((2 ** 26, 1), (2 ** 26, 2), (2 ** 26, 3), (2 ** 27, 1)):
        key = rng.randbytes(16)
        d = rng.randbytes(n)
        out = core.impl_call("generate_cbc_mac", (key, d, padding, None, True))
        padded = o.pad(padding, d, 16)
        enc = _C(_A.AES(key), _M.CBC(bytes(16))).encryptor()
        exp = enc.update(padded)[-16:]
        res["evaluations"] += 1
        res["distribution"]["huge:generate_cbc_mac"] = res["distribution"].get("huge:generate_cbc_mac", 0) + 1
        if out != ("OK", core.show(exp)):
            res["violations"].append({"what": "CBC-MAC of a message of exactly %d bytes differs from algorithm 1" % n, "expected": core.show(exp), "observed": list(out),
                                      "input": {"fn": "generate_cbc_mac", "message_length": n, "key": key.hex(), "padding": padding, "data": "rng.randbytes(%d)" % n}})
        del d, padded
    # long messages (nothing dropped or mis-chained at any internal chunk size): implementation vs hand chaining
    for n in ((65521, 65536, 65537, 70001) if not ctx.thorough else (65521, 65536, 65537, 70001, 131071, 131073, 200000)):
        d = rng.randbytes(n)
        big = [("generate_cbc_mac", (rng.randbytes(16), d, rng.choice((1, 2, 3)), None, False)),
               ("generate_cbc_mac", (rng.randbytes(24), d, 2, 5, True)),
               ("generate_retail_mac", (rng.randbytes(8), rng.randbytes(16), d, rng.choice((1, 2)), None))]
        for fn, args in big:
            out = core.impl_call(fn, args)
            v = check_impl(fn, args, out)
            res["evaluations"] += 1
            res["distribution"]["long:" + fn] = res["distribution"].get("long:" + fn, 0) + 1
            if v:
                v["input"] = {"fn": fn, "message_length": n, "key": args[0].hex(), "padding": args[2] if fn == "generate_cbc_mac" else args[3]}
                res["violations"].append(v)
    # a key held in ONE bytearray that the caller overwrites in place between consecutive calls of the same function
    # (no other key in between): no stale key material or cipher object may be reused
    def mutated_key_sequence(name, make_args, frozen_of, ks):
        buf = bytearray(rng.randbytes(ks))
        for step in range(4):
            args = make_args(buf)
            out = core.impl_call(name, args)
            frozen = tuple(bytes(a) if isinstance(a, bytearray) else a for a in args)
            v = check_impl(name, frozen, out)
            res["evaluations"] += 1
            if v:
                v["input"] = {"fn": name, "args": [core.show(a) for a in frozen],
                              "note": "key passed as ONE bytearray overwritten in place between calls (call %d of the sequence)" % (step + 1)}
                res["violations"].append(v)
            buf[:] = rng.randbytes(ks)

    msg = rng.randbytes(19)
    k2 = rng.randbytes(8)
    for ks in (8, 16, 24):
        mutated_key_sequence("generate_cbc_mac", lambda b: (b, msg, 1, None, False), None, ks)
        mutated_key_sequence("generate_retail_mac", lambda b: (b, k2, msg, 2, None), None, ks)
        mutated_key_sequence("generate_retail_mac", lambda b: (k2, b, msg, 1, None), None, ks)
    for ks in (16, 24, 32):
        mutated_key_sequence("generate_cbc_mac", lambda b: (b, msg, 2, None, True), None, ks)
    # oracle-free identity: single-block retail MAC = E_k1(D_k2(E_k1(block)))
    for _ in range(20):
        k1, k2, blk = rng.randbytes(8), rng.randbytes(8), rng.randbytes(8)
        got = core.impl_call("generate_retail_mac", (k1, k2, blk, 1, None))
        ede = core.impl_call("encrypt_tdes_ecb", (k1 + k2, blk))
        res["evaluations"] += 1
        if got != ede:
            res["violations"].append({"what": "single-block retail MAC != EDE(k1,k2,k1)", "expected": list(ede), "observed": list(got),
                                      "input": {"fn": "generate_retail_mac", "args": [core.show(k1), core.show(k2), core.show(blk)]}})
    return res
