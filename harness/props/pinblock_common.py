"""Shared generators / helpers for the PIN block properties (C04, C05, C06)."""
from harness import core, oracles as o
from psec import pinblock

DIG = "0123456789"


def rnd_digits(rng, n):
    """n decimal digits; a quarter of the draws have leading / trailing zeros or a single repeated digit"""
    from harness import gens
    return gens.digits(rng, n) if rng.random() < 0.5 else "".join(rng.choice(DIG) for _ in range(n))


def unmask(block, pan):
    """nibbles of block xor PAN block (formats 0 / 3)"""
    return o.xor_nibbles(o.nibbles(block), o.pan_block(pan))


def call(f, *args):
    try:
        return ("OK", f(*args))
    except Exception as e:  # noqa: BLE001
        return ("ERR", core.bucket(e))


def fmt3_choices(block, pin, pan):
    """the secrets.choice symbols recovered from an implementation format 3 block"""
    nib = unmask(block, pan)
    fill = nib[2 + len(pin):]
    return "".join("0123456789ABCDEF"[x] for x in fill) + "A" * (10 - len(fill)), fill

def biased_entropy(ctx, kind):
    """extreme values of the random fill, in a separate interpreter (harness/biased_entropy.py)"""
    import json, os, subprocess, sys
    from harness import framework as fw
    r = subprocess.run([sys.executable, "-W", "ignore", os.path.join(fw.VERIF, "harness", "biased_entropy.py"), str(ctx.seed),
                        str(ctx.n(6000, 60000))], capture_output=True, text=True, timeout=1200)
    try:
        res = json.loads(r.stdout.strip().split("\n")[-1])
    except Exception:  # noqa: BLE001
        return [{"what": "biased-entropy run did not complete: " + r.stderr[-300:], "input": {"history": "harness/biased_entropy.py"},
                 "expected": "completes", "observed": "crash"}], 0
    return [{"what": v["what"], "input": {"history": "python harness/biased_entropy.py %d N" % ctx.seed, "detail": v["what"]},
             "expected": "holds for every value of the random fill", "observed": v["what"]} for v in res[kind]], res["calls"]


def rejected_calls(rng):
    """calls of every pinblock function that are rejected at each of its validation stages
    (the stage is what matters: state switched before the failing check and never restored)"""
    key = rng.randbytes(16)
    pin, pan = "12345", "4111111111111111"
    bad_pins = ["123", "1234567890123", "12a4", "", "１２３４"]
    bad_pans = ["123456789012", "41111111111a1111", "", "４１１１１１１１１１１１１１"]
    out = []
    for f in ("encode_pinblock_iso_0", "encode_pinblock_iso_3"):
        out += [(f, (p, pan)) for p in bad_pins] + [(f, (pin, q)) for q in bad_pans]
    out += [("encode_pinblock_iso_2", (p,)) for p in bad_pins] + [("encode_pin_field_iso_4", (p,)) for p in bad_pins]
    out += [("encode_pan_field_iso_4", (q,)) for q in ("", "1" * 20, "12a")]
    out += [("encipher_pinblock_iso_4", (key, p, pan)) for p in bad_pins] + [("encipher_pinblock_iso_4", (key, pin, q)) for q in ("", "1" * 20, "x1")]
    out += [("encipher_pinblock_iso_4", (b"\x01" * 7, pin, pan))]
    good0 = pinblock.encode_pinblock_iso_0(pin, pan)
    for f, bad_blocks in (("decode_pinblock_iso_0", [b"\x14" + good0[1:], good0[:7], bytes([good0[0] & 0xF0 | 3]) + good0[1:], good0[:-1] + b"\x00"]),
                          ("decode_pinblock_iso_3", [good0, good0[:7]])):
        out += [(f, (b, pan)) for b in bad_blocks] + [(f, (good0, q)) for q in bad_pans[:2]]
    out += [("decode_pinblock_iso_2", (b,)) for b in (good0, b"\x2f" + b"\xff" * 7, b"\x24\x12\x3a" + b"\xff" * 5, b"\x24\x12\x34\xff\xff\xff\xff")]
    out += [("decode_pin_field_iso_4", (b,)) for b in (bytes(16), b"\x43\x12\x3a" + bytes(13), b"\x44\x12\x34\xab" + bytes(12), b"\x44" * 15)]
    out += [("decipher_pinblock_iso_4", (key, bytes(16), pan)), ("decipher_pinblock_iso_4", (key, bytes(15), pan)),
            ("decipher_pinblock_iso_4", (key, bytes(16), ""))]
    return out


def after_rejected_calls(rng, viol):
    """Each rejected call is followed at once by a battery of accepted calls of EVERY format whose results are
    compared with the from-the-standard construction: a mode switched on before a failing check and not
    switched back (module or class state) shows up in the battery.  -> number of calls"""
    n = 0
    pins = ["1234", "98765", "000000000000", "4929071"]
    pans = ["4111111111111111", "1234567890123", "5500000000000000004"]
    key = rng.randbytes(16)
    for f, args in rejected_calls(rng):
        r = call(getattr(pinblock, f), *args)
        n += 1
        if r[0] == "OK":
            continue  # accepted after all (a boundary reading): not this battery's business
        ctxt = "%s%r was rejected (%s); next call" % (f, tuple(a.hex() if isinstance(a, bytes) else a for a in args), r[1])
        for pin in pins:
            pan = rng.choice(pans)
            n += 6
            b0 = call(pinblock.encode_pinblock_iso_0, pin, pan)
            e0 = o.from_nibbles(o.xor_nibbles(o.pin_block_nibbles(0, pin), o.pan_block(pan)))
            b2 = call(pinblock.encode_pinblock_iso_2, pin)
            e2 = o.from_nibbles(o.pin_block_nibbles(2, pin))
            b3 = call(pinblock.encode_pinblock_iso_3, pin, pan)
            f4 = call(pinblock.encode_pin_field_iso_4, pin)
            checks = [("encode_pinblock_iso_0", (pin, pan), b0 == ("OK", e0), e0.hex(), b0),
                      ("encode_pinblock_iso_2", (pin,), b2 == ("OK", e2), e2.hex(), b2)]
            ok3 = b3[0] == "OK" and len(b3[1]) == 8
            if ok3:
                nib = unmask(b3[1], pan)
                ok3 = nib[:2 + len(pin)] == [3, len(pin)] + [int(c) for c in pin] and all(x >= 10 for x in nib[2 + len(pin):])
            checks.append(("encode_pinblock_iso_3", (pin, pan), ok3, "3 L digits fill A-F", b3))
            ok4 = f4[0] == "OK" and len(f4[1]) == 16 and o.nibbles(f4[1]) == o.pin_field4_nibbles(pin, f4[1][8:])
            checks.append(("encode_pin_field_iso_4", (pin,), ok4, "4 L digits A.. + 8 random bytes", f4))
            d0 = call(pinblock.decode_pinblock_iso_0, e0, pan)
            checks.append(("decode_pinblock_iso_0", (e0.hex(), pan), d0 == ("OK", pin), pin, d0))
            e4 = call(pinblock.encipher_pinblock_iso_4, key, pin, pan)
            d4 = call(pinblock.decipher_pinblock_iso_4, key, e4[1], pan) if e4[0] == "OK" else e4
            checks.append(("decipher(encipher) iso_4", (key.hex(), pin, pan), d4 == ("OK", pin), pin, d4))
            for fn, a, ok, exp, obs in checks:
                if not ok:
                    viol.append({"what": "result depends on an earlier rejected call: " + ctxt, "input": {"fn": fn, "args": list(a), "history": ctxt},
                                 "expected": exp, "observed": repr(obs)[:200]})
    return n


def threaded_encoders(rng, viol, per_thread=400, nthreads=8):
    """the randomised encoders called concurrently by `nthreads` threads (switch interval 1e-6): every block must still
    have the standard's layout and decode to its PIN (shared fill generators, pooled entropy or module-level scratch
    buffers only fail here).  -> number of calls"""
    import sys
    import threading
    jobs = []
    keys = [rng.randbytes(ks) for ks in (16, 24, 32, 16, 32, 24)]          # different AES keys in flight at the same time
    for _ in range(nthreads * per_thread):
        L = rng.randrange(4, 13)
        jobs.append((rng.choice((0, 0, 1, 2, 2, 3, 3)), "".join(rng.choice(DIG) for _ in range(L)), "".join(rng.choice(DIG) for _ in range(rng.randrange(13, 20))),
                     rng.choice(keys)))
    res = [None] * len(jobs)

    def runner(t0):
        for j in range(t0, len(jobs), nthreads):
            kind, pin, pan, key = jobs[j]
            try:
                if kind == 3:
                    b = pinblock.encode_pinblock_iso_0(pin, pan)
                    res[j] = (b, pinblock.decode_pinblock_iso_0(b, pan))
                elif kind == 0:
                    b = pinblock.encode_pinblock_iso_3(pin, pan)
                    res[j] = (b, pinblock.decode_pinblock_iso_3(b, pan))
                elif kind == 1:
                    f = pinblock.encode_pin_field_iso_4(pin)
                    res[j] = (f, pinblock.decode_pin_field_iso_4(f))
                else:
                    e = pinblock.encipher_pinblock_iso_4(key, pin, pan)
                    res[j] = (e, pinblock.decipher_pinblock_iso_4(key, e, pan))
            except Exception as e:  # noqa: BLE001
                res[j] = e

    old = sys.getswitchinterval()
    sys.setswitchinterval(1e-6)
    try:
        ths = [threading.Thread(target=runner, args=(k,)) for k in range(nthreads)]
        for th in ths:
            th.start()
        for th in ths:
            th.join()
    finally:
        sys.setswitchinterval(old)
    names = ("encode_pinblock_iso_3", "encode_pin_field_iso_4", "encipher_pinblock_iso_4", "encode_pinblock_iso_0")
    nv = 0
    for (kind, pin, pan, key), r in zip(jobs, res):
        ok = not isinstance(r, Exception) and r is not None and r[1] == pin
        if ok and kind == 3:
            ok = r[0] == o.from_nibbles(o.xor_nibbles(o.pin_block_nibbles(0, pin), o.pan_block(pan)))
        if ok and kind == 2:
            pf = o.D("aes", key, o.xor(o.D("aes", key, r[0]), o.from_nibbles(o.pan_field4_nibbles(pan))))
            ok = o.nibbles(pf)[:16] == o.pin_field4_nibbles(pin, b"")[:16]
        if ok and kind == 0:
            nib = unmask(r[0], pan)
            ok = nib[:2 + len(pin)] == [3, len(pin)] + [int(c) for c in pin] and all(x >= 10 for x in nib[2 + len(pin):]) and len(r[0]) == 8
        if ok and kind == 1:
            ok = len(r[0]) == 16 and o.nibbles(r[0])[:16] == o.pin_field4_nibbles(pin, b"")[:16]
        if not ok:
            nv += 1
            if nv <= 10:
                viol.append({"what": "randomised encoder called concurrently by %d threads: wrong layout / round trip / exception" % nthreads,
                             "input": {"fn": names[kind], "args": [pin, pan] if kind != 1 else [pin], "history": "%d threads x %d mixed calls" % (nthreads, per_thread)},
                             "expected": "block with the standard layout that decodes to the PIN", "observed": repr(r)[:200]})
    return len(jobs)


def threaded_fixed_pairs(rng, viol, iters=4000, nthreads=8):
    """tight loops: every thread encodes and decodes format 0 / 3 blocks for ITS OWN (PIN, PAN) pairs, results compared with
    values computed beforehand (single-threaded, from the standard) - a last-value memo written in two steps, or a shared
    scratch block, is hit only by many short calls under different PANs at once.  -> number of calls"""
    import sys
    import threading
    pairs = []
    for _ in range(nthreads):
        pin = "".join(rng.choice(DIG) for _ in range(rng.randrange(4, 13)))
        pan = "".join(rng.choice(DIG) for _ in range(rng.randrange(13, 20)))
        pairs.append((pin, pan, o.from_nibbles(o.xor_nibbles(o.pin_block_nibbles(0, pin), o.pan_block(pan)))))
    bad = [None] * nthreads

    def runner(ti):
        pin, pan, exp0 = pairs[ti]
        for it in range(iters):
            try:
                b0 = pinblock.encode_pinblock_iso_0(pin, pan)
                if b0 != exp0:
                    bad[ti] = ("encode_pinblock_iso_0", [pin, pan], exp0.hex(), b0.hex())
                    return
                p0 = pinblock.decode_pinblock_iso_0(exp0, pan)
                if p0 != pin:
                    bad[ti] = ("decode_pinblock_iso_0", [exp0.hex(), pan], pin, p0)
                    return
                if it % 4 == 0:
                    b3 = pinblock.encode_pinblock_iso_3(pin, pan)
                    p3 = pinblock.decode_pinblock_iso_3(b3, pan)
                    nib = unmask(b3, pan)
                    if p3 != pin or nib[:2 + len(pin)] != [3, len(pin)] + [int(c) for c in pin]:
                        bad[ti] = ("encode/decode_pinblock_iso_3", [pin, pan], pin, repr((b3.hex(), p3)))
                        return
            except Exception as e:  # noqa: BLE001
                bad[ti] = ("format 0 / 3 encode or decode", [pin, pan], "result", repr(e)[:160])
                return

    old = sys.getswitchinterval()
    sys.setswitchinterval(1e-6)
    try:
        ths = [threading.Thread(target=runner, args=(k,)) for k in range(nthreads)]
        for th in ths:
            th.start()
        for th in ths:
            th.join()
    finally:
        sys.setswitchinterval(old)
    for b in bad:
        if b:
            viol.append({"what": "format 0 / 3 under %d threads, each with its own PAN: wrong result" % nthreads,
                         "input": {"fn": b[0], "args": b[1], "history": "%d threads x %d iterations, one (PIN, PAN) pair per thread" % (nthreads, iters)},
                         "expected": b[2], "observed": b[3]})
    # the state left behind must be sound too: the same pairs again, single-threaded
    for pin, pan, exp0 in pairs:
        b0 = call(pinblock.encode_pinblock_iso_0, pin, pan)
        if b0 != ("OK", exp0):
            viol.append({"what": "format 0 block wrong AFTER a threaded run (state left behind by a race)", "input": {"fn": "encode_pinblock_iso_0", "args": [pin, pan]},
                         "expected": exp0.hex(), "observed": repr(b0)})
    return nthreads * iters * 2
