"""Shared generators / helpers for the PIN block properties (C04, C05, C06)."""
from harness import core, oracles as o
from psec import pinblock

DIG = "0123456789"


def rnd_digits(rng, n):
    """n decimal digits; a quarter of the draws have leading / trailing zeros or a single repeated digit"""
    from harness import gens
    return gens.digits(rng, n) if rng.random() < 0.5 else "".join(rng.choice(DIG) for _ in range(n))


def unmask(block, pan):
    """nibbles of block xor PAN block (formats 0 / 3)"""
    return o.xor_nibbles(o.nibbles(block), o.pan_block(pan))


def call(f, *args):
    try:
        return ("OK", f(*args))
    except Exception as e:  # noqa: BLE001
        return ("ERR", core.bucket(e))


def fmt3_choices(block, pin, pan):
    """the secrets.choice symbols recovered from an implementation format 3 block"""
    nib = unmask(block, pan)
    fill = nib[2 + len(pin):]
    return "".join("0123456789ABCDEF"[x] for x in fill) + "A" * (10 - len(fill)), fill

def biased_entropy(ctx, kind):
    """extreme values of the random fill, in a separate interpreter (harness/biased_entropy.py)"""
    import json, os, subprocess, sys
    from harness import framework as fw
    r = subprocess.run([sys.executable, "-W", "ignore", os.path.join(fw.VERIF, "harness", "biased_entropy.py"), str(ctx.seed),
                        str(ctx.n(6000, 60000))], capture_output=True, text=True, timeout=1200)
    try:
        res = json.loads(r.stdout.strip().split("\n")[-1])
    except Exception:  # noqa: BLE001
        return [{"what": "biased-entropy run did not complete: " + r.stderr[-300:], "input": {"history": "harness/biased_entropy.py"},
                 "expected": "completes", "observed": "crash"}], 0
    return [{"what": v["what"], "input": {"history": "python harness/biased_entropy.py %d N" % ctx.seed, "detail": v["what"]},
             "expected": "holds for every value of the random fill", "observed": v["what"]} for v in res[kind]], res["calls"]
