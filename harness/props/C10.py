"""C10 - generate_visa_pvv is the standard PVV and always four digits."""
from harness import core, oracles as o, framework as fw


def dec(t):
    return all(c in "0123456789" for c in t)


def check_impl(fn, args, out):
    pvk, pvki, pin, pan = args
    dom = len(pvk) in (8, 16, 24) and len(pvki) == 1 and dec(pvki) and len(pin) == 4 and dec(pin) and len(pan) >= 12 and dec(pan)
    if not dom:
        return None if out == ("ERR", "ValueError") else {"what": "accepted or crashed outside the domain", "expected": "ValueError", "observed": list(out)}
    exp = o.pvv(pvk, pvki, pin, pan)
    if out != ("OK", core.show(exp)) or len(exp) != 4:
        return {"what": "PVV differs from the standard algorithm / not 4 digits", "expected": exp, "observed": list(out)}
    return None


def run(ctx):
    rng = ctx.rng
    cases = []
    import json, os
    cp = os.path.join(fw.VERIF, "corpus", "C10.json")
    corpus = json.load(open(cp)) if os.path.exists(cp) else []
    for w in corpus:       # ultra-rare inputs (0 or 1 decimal nibbles in the encrypted TSP), see tools/rare_search.py
        cases.append(("generate_visa_pvv", (bytes.fromhex(w["pvk"]), w["pvki"], w["pin"], w["pan"])))
    rnd = lambda n: "".join(rng.choice("0123456789") for _ in range(n))  # noqa: E731
    from harness import gens
    for _ in range(ctx.n(600, 3000)):
        cases.append(("generate_visa_pvv", (gens.key(rng, rng.choice((8, 16, 24))), rnd(1), gens.digits(rng, 4), gens.digits(rng, rng.randrange(12, 25)))))
    cases = fw.with_history(rng, cases, gens.variants_generic(rng), fraction=0.1, limit=60)
    if ctx.thorough:
        pvk, pan = rng.randbytes(16), rnd(16)
        for p in range(10000):
            cases.append(("generate_visa_pvv", (pvk, "1", "%04d" % p, pan)))
    # directed: inputs needing the second pass (fewer than 4 decimal nibbles)
    from cryptography.hazmat.primitives.ciphers import Cipher, algorithms, modes
    found, tried, want, budget = 0, 0, ctx.n(60, 600), ctx.n(400000, 4000000)
    shapes = {}
    while tried < budget and found < want:
        pvk = rng.randbytes(rng.choice((8, 16, 24)))
        enc = Cipher(algorithms.TripleDES(pvk), modes.ECB()).encryptor()
        for _ in range(3000):
            tried += 1
            pvki, pin, pan = rnd(1), rnd(4), rnd(rng.choice((12, 13, 16, 16, 19, 24)))
            tsp = pan[len(pan) - 12:len(pan) - 1] + pvki + pin
            r = enc.update(o.from_nibbles([int(c) for c in tsp]))
            nb = o.nibbles(r)
            dec = [x for x in nb if x < 10]
            if len(dec) < 4:
                cases.append(("generate_visa_pvv", (pvk, pvki, pin, pan)))
                found += 1
                if found >= want:
                    break
            else:
                shape = None
                if len(set(dec)) <= 2:
                    shape = "four or more decimal nibbles, at most two distinct values"
                elif len(dec) == 4:
                    shape = "exactly four decimal nibbles"
                elif len(dec) == 16:
                    shape = "all sixteen nibbles decimal"
                elif all(x >= 10 for x in nb[:4]):
                    shape = "first four nibbles are letters"
                elif all(x >= 10 for x in nb[-8:]):
                    shape = "decimal nibbles only in the first half"
                if shape and shapes.get(shape, 0) < 6:
                    shapes[shape] = shapes.get(shape, 0) + 1
                    cases.append(("generate_visa_pvv", (pvk, pvki, pin, pan)))
    # chosen cipher blocks: a PVK under which the TSP of a legal (PAN, index, PIN) encrypts to all zero / one repeated hex
    # digit / 0123456789ABCDEF (found by decrypting the block under random keys until the plaintext is 16 decimal digits)
    nchosen = 0
    for target in gens.SPECIAL_BLOCKS:
        hit = gens.chosen_ciphertext(rng, rng.choice((8, 16, 24)), target, lambda nb: nb if all(x < 10 for x in nb) else None, tries=ctx.n(12000, 60000))
        if hit:
            k, nb = hit
            ds = "".join(str(x) for x in nb)
            cases.append(("generate_visa_pvv", (k, ds[11], ds[12:], ds[:11] + rng.choice("0123456789"))))
            cases.append(("generate_visa_pvv", (k, ds[11], ds[12:], rnd(rng.randrange(0, 8)) + ds[:11] + "7")))
            nchosen += 1
    # very long PANs (no upper bound is documented; only the 11 digits before the check digit are used)
    for n in (25, 100, 1000, 4300, 4301, 5000):
        cases.append(("generate_visa_pvv", (rng.randbytes(16), "1", "1234", rnd(n))))
    for pvkl in (0, 7, 9, 15, 17, 25, 32):
        cases.append(("generate_visa_pvv", (rng.randbytes(pvkl), "1", "1234", "1122334455667788")))
    for pvki in ("", "11", "A", "１", " ", "+"):
        cases.append(("generate_visa_pvv", (rng.randbytes(16), pvki, "1234", "1122334455667788")))
    for pin in ("", "123", "12345", "12３4", "12 4", "+123", "123\n"):
        cases.append(("generate_visa_pvv", (rng.randbytes(16), "1", pin, "1122334455667788")))
    for pan in ("", "12345678901", "1234567890１2", "12345678901 ", "123456789012", "-23456789012"):
        cases.append(("generate_visa_pvv", (rng.randbytes(16), "1", "1234", pan)))
    res = fw.call_result(
        cases, check_impl=check_impl, nontrivial=lambda fn, a, o_: o_[0] == "OK",
        rule="random PVK sizes 8/16/24 x index x PIN x PAN lengths 12..24 (+ all 10^4 PINs in thorough) + directed inputs "
             "needing the second decimalisation pass + domain edges; oracle = independent PVV; non-trivial = distinct successful calls")
    fw.inplace_history(res, rng, [c for c in cases if check_impl(c[0], c[1], core.impl_call(c[0], c[1])) is None][:200], check_impl)
    res["distribution"]["second_pass_inputs"] = found
    res["distribution"]["chosen_cipher_blocks"] = nchosen
    for shape, k in shapes.items():
        res["distribution"]["encrypted TSP: " + shape] = k
    res["distribution"]["corpus_inputs_0_or_1_decimal_nibbles"] = len(corpus)
    return res
