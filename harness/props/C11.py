"""C11 - IBM 3624 PIN and offset are standard and mutually inverse."""
from harness import core, gens, oracles as o, framework as fw


def dec(t):
    return all(c in "0123456789" for c in t)


def in_domain(pvk, table, digits, pan, off, ln, pad):
    return (len(pvk) in (8, 16, 24) and len(table) == 16 and dec(table) and 4 <= len(digits) <= 16 and dec(digits)
            and len(pan) <= 19 and dec(pan) and len(pad) == 1 and pad in "0123456789abcdefABCDEF"
            and len(pan[off:off + ln]) == ln)


def check_impl(fn, args, out):
    pvk, table, digits, pan, off, ln, pad = args
    if not in_domain(*args):
        return None if out == ("ERR", "ValueError") else {"what": "accepted or crashed outside the domain", "expected": "ValueError", "observed": list(out)}
    ref = o.ibm_pin if fn == "generate_ibm3624_pin" else o.ibm_offset
    exp = ref(pvk, table, digits, pan, off, ln, pad)
    if out != ("OK", core.show(exp)) or len(exp) != len(digits):
        return {"what": "IBM 3624 value differs from the standard", "expected": exp, "observed": list(out)}
    # mutual inverse on the implementation
    other = "generate_ibm3624_offset" if fn == "generate_ibm3624_pin" else "generate_ibm3624_pin"
    back = core.impl_call(other, (pvk, table, exp, pan, off, ln, pad))
    if back != ("OK", core.show(digits)):
        return {"what": "pin/offset are not mutually inverse", "expected": digits, "observed": list(back)}
    # lower / upper case pad equivalence
    if pad.lower() != pad.upper():
        a = core.impl_call(fn, (pvk, table, digits, pan, off, ln, pad.lower()))
        b = core.impl_call(fn, (pvk, table, digits, pan, off, ln, pad.upper()))
        if a != b:
            return {"what": "pad character case changes the result", "expected": list(b), "observed": list(a)}
    return None


def run(ctx):
    rng = ctx.rng
    rnd = lambda n: "".join(rng.choice("0123456789") for _ in range(n))  # noqa: E731
    cases = []
    pads = "0123456789abcdefABCDEF"
    for fn in ("generate_ibm3624_pin", "generate_ibm3624_offset"):
        for pad in pads:
            for _ in range(ctx.n(6, 30)):
                pl = rng.randrange(0, 20)
                off = rng.randrange(0, pl + 1)
                ln = rng.randrange(0, pl - off + 1)
                cases.append((fn, (gens.key(rng, rng.choice((8, 16, 24))), rnd(16), rnd(rng.randrange(4, 17)), rnd(pl), off, ln, pad)))
        # structured decimalisation tables: the default, the identity prefix with other tails, constant, reversed, one
        # entry changed - a table is data, every entry of it must be honoured for every hex digit
        for table in ("0123456789012345", "0123456789543210", "0123456789999999", "0123456789000000", "0123456789123456",
                      "9876543210987654", "0000000000000000", "7777777777777777", "1234567890123456", "0123456789012346",
                      "1123456789012345", "0123456780012345"):
            for _ in range(ctx.n(4, 16)):
                pl = rng.randrange(12, 20)
                cases.append((fn, (rng.randbytes(rng.choice((8, 16, 24))), table, rnd(rng.randrange(4, 17)), rnd(pl), 0, min(pl, 16), rng.choice("0F9a"))))
        # chosen cipher blocks: a PVK under which legal validation data (window digits, then one repeated pad character)
        # encrypts to all zero / one repeated hex digit / 0123456789ABCDEF
        if fn == "generate_ibm3624_pin":
            from harness import gens as _g

            def legal(nb):
                m = 16
                while m > 0 and nb[m - 1] == nb[15]:
                    m -= 1
                return (m, nb) if all(x < 10 for x in nb[:m]) else None

            chosen = []
            for target in _g.SPECIAL_BLOCKS:
                hit = _g.chosen_ciphertext(rng, rng.choice((8, 16, 24)), target, legal, tries=ctx.n(6000, 40000))
                if hit:
                    chosen.append(hit)
        for k_, (m_, nb_) in chosen:
            window = "".join(str(x) for x in nb_[:m_])
            padc = "0123456789ABCDEF"[nb_[15]]
            for table in ("0123456789012345", rnd(16)):
                cases.append((fn, (k_, table, rnd(rng.randrange(4, 17)), window, 0, m_, padc)))
                cases.append((fn, (k_, table, rnd(4), rnd(2) + window, 2, m_, padc.lower())))
        # windows: all (start, length) for one PAN of 19 incl. > 16 and empty, and a few past the end
        pan = rnd(19)
        pvk, table = rng.randbytes(16), rnd(16)
        for off in range(0, 20):
            for ln in (range(0, 21 - off) if ctx.thorough else (0, 1, 16, 17, 19 - off, 20 - off)):
                if ln < 0:
                    continue
                cases.append((fn, (pvk, table, rnd(4), pan, off, ln, "F")))
        for dl in range(2, 19):
            cases.append((fn, (pvk, table, rnd(dl), pan, 0, 16, "0")))
        # domain edges
        for pvkl in (0, 7, 9, 15, 17, 25):
            cases.append((fn, (rng.randbytes(pvkl), table, "1234", pan, 0, 16, "F")))
        for t in (rnd(15), rnd(17), rnd(15) + "A", rnd(15) + "٣", rnd(15) + " "):
            cases.append((fn, (pvk, t, "1234", pan, 0, 16, "F")))
        for d in ("123", "1" * 17, "12３4", "12 4", "+123", "123\n", "123A"):
            cases.append((fn, (pvk, table, d, pan, 0, 16, "F")))
        for p in (rnd(20), rnd(15) + "A", rnd(15) + "１"):
            cases.append((fn, (pvk, table, "1234", p, 0, 12, "F")))
        for pad in ("", "FF", "G", "g", "Ｆ", " ", "\n", "x"):
            cases.append((fn, (pvk, table, "1234", pan, 0, 16, pad)))
        # short PANs: every window that stays inside, touches the end, or runs past it (but within 16)
        for pl in (0, 1, 5, 11, 12, 15):
            span = rnd(pl)
            for off in sorted({0, 1, pl // 2, max(0, pl - 1), pl, pl + 1}):
                for ln in sorted({0, 1, max(0, pl - off), pl - off + 1, 16 - off, 16}):
                    if ln >= 0:
                        cases.append((fn, (pvk, table, "1234", span, off, ln, rng.choice("0123456789ABCDEFabcdef"))))
        # the same key and window under every pad character, one after the other (a cache keyed without the pad shows here)
        for pl, off, ln in ((12, 0, 12), (16, 2, 10), (19, 0, 19), (5, 0, 0)):
            span, k2 = rnd(pl), rng.randbytes(16)
            for pad in "F0f9Aa5E":
                cases.append((fn, (k2, table, "4321", span, off, ln, pad)))
    cases = fw.with_history(rng, cases, gens.variants_generic(rng), fraction=0.08, limit=40)
    _res = fw.call_result(
        cases, check_impl=check_impl, nontrivial=lambda fn, a, o_: o_[0] == "OK",
        rule="all 22 pad characters x PVK sizes x random tables x offset/PIN lengths 4..16 x PAN lengths 0..19 x windows "
             "(all starts, lengths incl. > 16 and empty, and past the end) + domain edges; oracle = independent IBM 3624; "
             "inverse relation and pad-case equivalence evaluated on the implementation; non-trivial = distinct successful calls")
    fw.inplace_history(_res, rng, [c for c in cases if core.impl_call(c[0], c[1])[0] == "OK"][:300], check_impl)
    return _res
