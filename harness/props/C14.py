"""C14 - random fill and padding are fresh, unpredictable and within their alphabet.
Theorems (Properties/C14.v) say the outputs expose the explicit random tape
verbatim / bijectively; provenance and freshness of the tape are a runtime
matter, observed by harness/c14_monitor.py in a separate interpreter."""
import json
import os
import subprocess
import sys

from harness import core, oracles as o, framework as fw
from harness.props.pinblock_common import rnd_digits, fmt3_choices
from psec import pinblock, tr31


def run(ctx):
    n = ctx.n(2000, 20000)
    env = dict(os.environ)
    r = subprocess.run([sys.executable, "-W", "ignore", os.path.join(fw.VERIF, "harness", "c14_monitor.py"), str(ctx.seed), str(n)],
                       capture_output=True, text=True, env=env, timeout=3000)
    viol, diffs = [], []
    mon = None
    try:
        mon = json.loads(r.stdout.strip().split("\n")[-1])
    except Exception:  # noqa: BLE001
        diffs.append({"monitor": "did not produce a result", "stderr": r.stderr[-800:]})
    if mon:
        for v in mon["violations"][:40]:
            viol.append({"what": v["what"], "input": {"history": "python harness/c14_monitor.py %d %d" % (ctx.seed, n), "detail": v.get("observed", "")},
                         "expected": "fresh OS-generator fill within the alphabet", "observed": v["what"]})
    # correspondence: "exists a tape in the admissible alphabet such that model(args, tape) = impl output"
    rng = ctx.rng
    lines, expect, samples = [], [], []
    for _ in range(ctx.n(150, 1500)):
        pin = rnd_digits(rng, rng.randrange(4, 13))
        pan = rnd_digits(rng, rng.randrange(13, 20))
        b3 = pinblock.encode_pinblock_iso_3(pin, pan)
        choices, fill = fmt3_choices(b3, pin, pan)
        if any(x < 10 for x in fill):
            viol.append({"what": "format 3 fill outside A-F", "input": {"fn": "encode_pinblock_iso_3", "args": [pin, pan]},
                         "expected": "A-F", "observed": b3.hex()})
        lines.append(core.model_line("encode_pinblock_iso_3", (pin, pan, choices)))
        expect.append("OK " + core.show(b3))
        f4 = pinblock.encode_pin_field_iso_4(pin)
        lines.append(core.model_line("encode_pin_field_iso_4", (pin, f4[8:])))
        expect.append("OK " + core.show(f4))
    for line, exp, got in zip(lines, expect, core.run_model(lines)):
        if got != exp:
            diffs.append({"request": line, "impl": exp, "model": got})
        elif len(samples) < 3:
            samples.append({"request": line, "impl": exp})
    # TR-31: the recovered tape must reproduce the block (done at volume in C03); small sample here
    cases = []
    for v in "ABCD":
        for _ in range(ctx.n(4, 30)):
            kbpk, key = rng.randbytes(16), rng.randbytes(rng.choice([8, 16, 24]))
            mask = rng.choice([None, 32, 40])
            kb = tr31.wrap(kbpk, v + "0000P0TE00N0000", key, mask)
            cases.append((kbpk, [("L", v + "0000P0TE00N0000"), ("W", key, mask)], kb))
    fake = [("", ["nat:16", "str:" + core.show(kb)]) for _, _, kb in cases]
    mops = core.with_tapes([(k, ops) for k, ops, _ in cases], fake)
    for (k, ops, kb), l in zip(cases, core.run_model([core.model_run_line(k, ops) for k, ops in mops])):
        mh, mouts = core.parse_model_run(l)
        if mouts[-1:] != ["str:" + core.show(kb)]:
            diffs.append({"op": "wrap", "impl": kb[:80], "model": mouts[-1][:80]})
    # derivation of the fill from the OS bytes: the monitor compared every call with a mirror of Model/Entropy.v (format 3)
    # and with "pad = tape verbatim" (format 4, TR-31); a sample of its format 3 records goes through the extracted model
    if mon and "derivation" in mon:
        der = mon["derivation"]
        for m_ in der["mismatch"]:
            diffs.append({"derivation": m_["what"], "detail": {k: str(v)[:120] for k, v in m_.items() if k != "what"}})
        recs = der["format3"]
        dl = ["draw " + core.show(bytes(st)) + " %d" % n_ for st, n_, _ in recs]
        for (st, n_, fill), got in zip(recs, core.run_model(dl)):
            want = "OK " + core.show(bytes(x - 10 for x in fill))
            if not got.startswith(want + " ") and got != want + " -":
                diffs.append({"derivation": "extracted model draw disagrees with the fill psec produced", "request": "draw", "os_bytes": bytes(st).hex(),
                              "impl_fill": fill, "model": got[:80]})
        if mon.get("stats") is not None:
            mon["stats"]["derivation_checked"] = der["checked"]
            mon["stats"]["derivation_through_extracted_model"] = len(recs)
    calls = (mon or {}).get("calls", 0)
    if mon:
        samples.append({"monitor_stats": mon["stats"], "hoeffding_eps": mon["eps"]})
    from harness.props import tr31_common as t
    tv, tcalls = t.threaded_wraps(ctx.rng, "fresh", rounds=1 if not ctx.thorough else 3)
    viol += tv
    calls += tcalls
    return {"evaluations": calls + len(lines) + len(cases), "distinct_nontrivial": calls, "samples": samples,
            "distribution": (mon or {}).get("stats", {}), "diffs": diffs, "violations": viol,
            "not_covered": ["that os.urandom itself is a cryptographic generator (OS), and freshness beyond the observed runs"],
            "rule": "runtime monitor in a separate interpreter with os.urandom / random._urandom wrapped before psec is imported: "
                    "%d calls per configuration (format 3 for each PIN length 4..12, format 4 field and block, TR-31 versions A-D): OS "
                    "bytes drawn >= fill carried, random.getstate() unchanged, fill within alphabet, per-position frequencies within a "
                    "Hoeffding bound (total false-alarm probability < 2^-60), sequences carrying >= 128 bits of fill differ between runs, "
                    "after random.seed(0) and across fork; plus model(args, recovered tape) = impl output; distinct_nontrivial = "
                    "monitored calls (each draws fresh randomness)" % n}
