"""Run (function, arguments) cases on the implementation in an interpreter whose sys.byteorder says "big"
(set before psec is imported): code that builds results with int.from_bytes / to_bytes in NATIVE order is only
right on the host it was tested on.  argv: <pickled cases in> <pickled outcomes out>."""
import os
import pickle
import sys

_real = sys.byteorder
if len(sys.argv) < 4 or sys.argv[3] != "native":      # "native": keep the byte order (used for the python -O / -OO runs)
    sys.byteorder = "big"
    os.environ["VERIF_PRETEND_BIG_ENDIAN"] = "1"
VERIF = os.path.dirname(os.path.dirname(os.path.abspath(__file__)))
sys.path.insert(0, VERIF)
import warnings  # noqa: E402

warnings.simplefilter("ignore")
from harness import core  # noqa: E402

cases = pickle.load(open(sys.argv[1], "rb"))
out = [core.impl_call(fn, args) for fn, args in cases]
pickle.dump(out, open(sys.argv[2], "wb"))
