"""Independent reference implementations (share no code with psec): used as the
oracle of each property's executable statement over the implementation.
Block-cipher calls go to OpenSSL one block at a time (ECB), everything else is
written here from the standards."""
import warnings

warnings.simplefilter("ignore")
from cryptography.hazmat.primitives import cmac as _cmac  # noqa: E402
from cryptography.hazmat.primitives.ciphers import Cipher, algorithms, modes  # noqa: E402


def _alg(kind, key):
    return algorithms.TripleDES(key) if kind == "des" else algorithms.AES(key)


def bsize(kind):
    return 8 if kind == "des" else 16


def E(kind, key, block):
    assert len(block) == bsize(kind)
    return Cipher(_alg(kind, key), modes.ECB()).encryptor().update(block)


def D(kind, key, block):
    assert len(block) == bsize(kind)
    return Cipher(_alg(kind, key), modes.ECB()).decryptor().update(block)


def xor(a, b):
    return bytes(x ^ y for x, y in zip(a, b))


def blocks(data, n):
    return [data[i:i + n] for i in range(0, len(data), n)]


# ---------------------------------------------------------------- ISO 9797-1
def pad(method, data, bs):
    def p1(d):
        k = 0
        while not (len(d) + k > 0 and (len(d) + k) % bs == 0):
            k += 1
        return d + b"\x00" * k
    if method == 1:
        return p1(data)
    if method == 2:
        return p1(data + b"\x80")
    if method == 3:
        return (8 * len(data)).to_bytes(bs, "big") + p1(data)
    raise KeyError(method)


def alg1(kind, key, padded):
    h = bytes(bsize(kind))
    for d in blocks(padded, bsize(kind)):
        h = E(kind, key, xor(h, d))
    return h


def alg3(key1, key2, padded):
    return E("des", key1, D("des", key2, alg1("des", key1, padded)))


def cbc_encrypt(kind, key, iv, data):
    out, prev = b"", iv
    for d in blocks(data, bsize(kind)):
        prev = E(kind, key, xor(d, prev))
        out += prev
    return out


def cbc_decrypt(kind, key, iv, data):
    out, prev = b"", iv
    for c in blocks(data, bsize(kind)):
        out += xor(D(kind, key, c), prev)
        prev = c
    return out


# ---------------------------------------------------------------- card values
def nibbles(b):
    out = []
    for x in b:
        out += [x >> 4, x & 15]
    return out


def from_nibbles(ns):
    return bytes((ns[i] << 4) | ns[i + 1] for i in range(0, len(ns), 2))


def decimalize(ns, n):
    first = [x for x in ns if x < 10]
    second = [x - 10 for x in ns if x >= 10]
    return "".join(str(x) for x in (first + second)[:n])


def cvv(cvk, pan, expiry, sc):
    ds = [int(c) for c in pan + expiry + sc]
    ds += [0] * (32 - len(ds))
    b1, b2 = from_nibbles(ds[:16]), from_nibbles(ds[16:])
    r = E("des", cvk[:8], b1)
    r = E("des", cvk, xor(r, b2))
    return decimalize(nibbles(r), 3)


def pvv(pvk, pvki, pin, pan):
    tsp = pan[len(pan) - 12:len(pan) - 1] + pvki + pin
    r = E("des", pvk, from_nibbles([int(c) for c in tsp]))
    return decimalize(nibbles(r), 4)


def ibm_natural(pvk, table, pan, off, ln, pad):
    window = [int(c) for c in pan[off:off + ln]][:16]
    window += [int(pad, 16)] * (16 - len(window))
    r = nibbles(E("des", pvk, from_nibbles(window)))
    return [int(table[x]) for x in r]


def ibm_pin(pvk, table, offset, pan, off, ln, pad):
    nat = ibm_natural(pvk, table, pan, off, ln, pad)
    return "".join(str((nat[i] + int(offset[i])) % 10) for i in range(len(offset)))


def ibm_offset(pvk, table, pin, pan, off, ln, pad):
    nat = ibm_natural(pvk, table, pan, off, ln, pad)
    return "".join(str((int(pin[i]) - nat[i]) % 10) for i in range(len(pin)))


# ---------------------------------------------------------------- ISO 9564-1
def pan_block(pan):
    return [0, 0, 0, 0] + [int(c) for c in pan[len(pan) - 13:len(pan) - 1]]


def pin_block_nibbles(fmt, pin, fill=None):
    L = len(pin)
    body = [int(c) for c in pin]
    if fmt in (0, 2):
        return [fmt, L] + body + [15] * (14 - L)
    if fmt == 3:
        return [3, L] + body + list(fill[:14 - L])
    raise ValueError


def pin_field4_nibbles(pin, tape8):
    L = len(pin)
    return [4, L] + [int(c) for c in pin] + [10] * (14 - L) + nibbles(tape8)


def pan_field4_nibbles(pan):
    ds = [int(c) for c in pan]
    ln = max(0, len(pan) - 12)
    ds = [0] * (12 - len(ds)) + ds
    out = [ln] + ds
    return out + [0] * (32 - len(out))


def xor_nibbles(a, b):
    return [x ^ y for x, y in zip(a, b)]


# ---------------------------------------------------------------- CMAC / TR-31
def cmac(kind, key, msg):
    c = _cmac.CMAC(_alg(kind, key))
    c.update(msg)
    return c.finalize()


def tr31_derive(version, kbpk):
    """-> (kbek, kbak) per TR-31:2018"""
    if version in "AC":
        return bytes(b ^ 0x45 for b in kbpk), bytes(b ^ 0x4D for b in kbpk)
    if version == "B":
        algo, ln, n, kind = {16: (0x0000, 0x0080, 2, "des"), 24: (0x0001, 0x00C0, 3, "des")}[len(kbpk)]
    else:
        algo, ln, n, kind = {16: (0x0002, 0x0080, 1, "aes"), 24: (0x0003, 0x00C0, 2, "aes"),
                             32: (0x0004, 0x0100, 2, "aes")}[len(kbpk)]
    out = []
    for usage in (0x0000, 0x0001):
        k = b""
        for i in range(1, n + 1):
            k += cmac(kind, kbpk, bytes([i]) + usage.to_bytes(2, "big") + b"\x00" + algo.to_bytes(2, "big") + ln.to_bytes(2, "big"))
        out.append(k[:len(kbpk)])
    return out[0], out[1]


TR31_BS = {"A": 8, "B": 8, "C": 8, "D": 16}
TR31_MAC = {"A": 4, "B": 8, "C": 4, "D": 16}


def tr31_parse_header(s):
    """liberal TR-31 header parser: -> (fields dict, [(id, data)], header_len) or raises ValueError"""
    if len(s) < 16:
        raise ValueError("short")
    f = {"version_id": s[0], "key_usage": s[5:7], "algorithm": s[7], "mode_of_use": s[8],
         "version_num": s[9:11], "exportability": s[11], "reserved": s[14:16]}
    n = int(s[12:14])
    i = 16
    blks = []
    for _ in range(n):
        bid = s[i:i + 2]
        ln = int(s[i + 2:i + 4], 16)
        if ln == 0:
            ll = int(s[i + 4:i + 6], 16)
            ln = int(s[i + 6:i + 6 + 2 * ll], 16)
            data = s[i + 6 + 2 * ll:i + ln]
        else:
            data = s[i + 4:i + ln]
        if len(s) < i + ln:
            raise ValueError("block overruns")
        i += ln
        if bid != "PB":
            blks.append((bid, data))
    return f, blks, i


def tr31_unwrap(kbpk, s):
    """Independent unwrap: -> (fields, blocks, key) or raises ValueError on any failure."""
    if not s.isascii():
        raise ValueError("non-ascii")
    version = s[0]
    if version not in TR31_BS:
        raise ValueError("version")
    if int(s[1:5]) != len(s) or len(s) % TR31_BS[version]:
        raise ValueError("length")
    f, blks, hl = tr31_parse_header(s)
    ml = TR31_MAC[version]
    body = s[hl:]
    if len(body) < 2 * ml:
        raise ValueError("no mac")
    mac = bytes.fromhex(body[-2 * ml:])
    enc = bytes.fromhex(body[:-2 * ml])
    kind = "aes" if version == "D" else "des"
    bs = TR31_BS[version]
    if len(mac) != ml or len(enc) == 0 or len(enc) % bs:
        raise ValueError("sizes")
    kbek, kbak = tr31_derive(version, kbpk)
    hdr = s[:hl].encode("ascii")
    if version in "AC":
        if alg1(kind, kbak, hdr + enc)[:4] != mac:
            raise ValueError("mac")
        clear = cbc_decrypt(kind, kbek, hdr[:8], enc)
    else:
        clear = cbc_decrypt(kind, kbek, mac, enc)
        if cmac(kind, kbak, hdr + clear) != mac:
            raise ValueError("mac")
    bits = int.from_bytes(clear[:2], "big")
    if bits % 8 or 2 + bits // 8 > len(clear):
        raise ValueError("key length")
    return f, blks, clear[2:2 + bits // 8]


def tr31_wrap(kbpk, fields, blks, key, pad, rng=None, ext_all=False, lower=False, pb_size=None, pb_ext=False, ll=2,
              pb_fill="0", pb_pos="last"):
    """Independent wrap with encoding freedoms: `pad` = the random key padding bytes (its length
    decides how many padding blocks), ext_all = every optional block in extended-length form,
    lower = lower-case hex in the binary section, pb_size = extra multiples of the block size in the pad block."""
    version = fields["version_id"]
    bs, ml = TR31_BS[version], TR31_MAC[version]
    kind = "aes" if version == "D" else "des"
    bt = ""
    for bid, data in blks:
        if ext_all or len(data) + 4 > 255:
            l2 = ll if len(data) + 6 + 2 * ll < 16 ** (2 * ll) else 2
            bt += bid + "00" + "%02X" % l2 + ("%0" + str(2 * l2) + "X") % (len(data) + 6 + 2 * l2) + data
        else:
            bt += bid + "%02X" % (len(data) + 4) + data
    n = len(blks)
    pbtxt = ""
    if pb_ext and (len(bt) % bs or pb_size):
        # the pad block itself in extended-length form: PB 00 <length of length> <length> filler
        over = 6 + 2 * ll
        padn = (-(len(bt) + over)) % bs + bs * (pb_size or 0)
        pbtxt = "PB" + "00" + "%02X" % ll + ("%0" + str(2 * ll) + "X") % (over + padn) + pb_fill * padn
    elif len(bt) % bs or pb_size:
        padn = (-(len(bt) + 4)) % bs + bs * (pb_size or 0)
        if padn == 0 and not pb_size:
            padn = bs
        pbtxt = "PB" + "%02X" % (4 + padn) + pb_fill * padn
    if pbtxt:
        n += 1
        if pb_pos == "first" or not blks:
            bt = (pbtxt + bt) if pb_pos == "first" else bt + pbtxt
        elif pb_pos == "middle" and len(blks) >= 2:
            # between the first and the second data block (the standard does not fix the pad block's place)
            first = blks[0]
            l2 = ll if len(first[1]) + 6 + 2 * ll < 16 ** (2 * ll) else 2
            first_txt = (first[0] + "00" + "%02X" % l2 + ("%0" + str(2 * l2) + "X") % (len(first[1]) + 6 + 2 * l2) + first[1]) if (
                ext_all or len(first[1]) + 4 > 255) else (first[0] + "%02X" % (len(first[1]) + 4) + first[1])
            assert bt.startswith(first_txt)
            bt = first_txt + pbtxt + bt[len(first_txt):]
        else:
            bt += pbtxt
    clear = (8 * len(key)).to_bytes(2, "big") + key + pad
    assert len(clear) % bs == 0
    total = 16 + len(bt) + 2 * len(clear) + 2 * ml
    hdr = (version + "%04d" % total + fields["key_usage"] + fields["algorithm"] + fields["mode_of_use"]
           + fields["version_num"] + fields["exportability"] + "%02d" % n + fields["reserved"] + bt)
    hb = hdr.encode("ascii")
    kbek, kbak = tr31_derive(version, kbpk)
    if version in "AC":
        enc = cbc_encrypt(kind, kbek, hb[:8], clear)
        mac = alg1(kind, kbak, hb + enc)[:4]
    else:
        mac = cmac(kind, kbak, hb + clear)
        enc = cbc_encrypt(kind, kbek, mac, clear)
    tail = enc.hex() + mac.hex()
    return hdr + (tail if lower else tail.upper())


def tr31_clear(kbpk, s):
    """the decrypted key data section (2-byte length, key, random padding) of a genuine block"""
    version = s[0]
    f, blks, hl = tr31_parse_header(s)
    ml, bs = TR31_MAC[version], TR31_BS[version]
    kind = "aes" if version == "D" else "des"
    mac = bytes.fromhex(s[-2 * ml:])
    enc = bytes.fromhex(s[hl:-2 * ml])
    kbek, _ = tr31_derive(version, kbpk)
    iv = s[:8].encode("ascii") if version in "AC" else mac
    return cbc_decrypt(kind, kbek, iv, enc)
