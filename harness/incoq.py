"""Keeps extraction honest: a small sample of model evaluations is repeated
INSIDE Coq (vm_compute, the kernel's own evaluator, on the Gallina DES/AES) and
must agree with what the extracted OCaml driver answered."""
import os
import subprocess
import tempfile

from harness import core, framework as fw


def cl(b):
    return "[" + "; ".join(str(x) for x in (b if isinstance(b, (bytes, bytearray)) else [ord(c) for c in b])) + "]%N"


def res_term(resp, kind="list"):
    """driver response line -> Coq term of type res (list N)"""
    if resp.startswith("OK"):
        txt = resp[3:].strip()
        vals = [] if txt in ("", "-") else txt.split(",")
        return "Ok [" + "; ".join(vals) + "]%N"
    name = resp[4:]
    if name.startswith("Crash:"):
        c = {"UnicodeEncodeError": "CUnicodeEncode", "OverflowError": "COverflow", "IndexError": "CIndex", "KeyError": "CKey",
             "ZeroDivisionError": "CZeroDiv", "binascii.Error": "CValue", "TypeError": "CType"}[name[6:]]
        return "Err (Crash %s)" % c
    return "Err " + name


def check(rng):
    """-> (number of cases, list of problems)"""
    k16, k8 = rng.randbytes(16), rng.randbytes(8)
    pan = "".join(rng.choice("0123456789") for _ in range(16))
    data = rng.randbytes(rng.randrange(0, 20))
    cases = [
        ("pad_iso_2 %s 8" % core.show(data), "x_pad_iso_2 %s 8%%nat" % cl(data)),
        ("generate_cbc_mac %s %s 2 N 0" % (core.show(k16), core.show(data)),
         "x_generate_cbc_mac %s %s 2%%N None false" % (cl(k16), cl(data))),
        ("generate_cbc_mac %s %s 1 5 1" % (core.show(k16), core.show(data)),
         "x_generate_cbc_mac %s %s 1%%N (Some 5%%nat) true" % (cl(k16), cl(data))),
        ("generate_retail_mac %s %s %s 1 N" % (core.show(k8), core.show(k16), core.show(data)),
         "x_generate_retail_mac %s %s %s 1%%N None" % (cl(k8), cl(k16), cl(data))),
        ("generate_cvv %s %s %s %s" % (core.show(k16), core.show(pan), core.show("2512"), core.show("101")),
         "x_generate_cvv %s %s %s %s" % (cl(k16), cl(pan), cl("2512"), cl("101"))),
        ("generate_visa_pvv %s %s %s %s" % (core.show(k8), core.show("1"), core.show("1234"), core.show(pan)),
         "x_generate_visa_pvv %s %s %s %s" % (cl(k8), cl("1"), cl("1234"), cl(pan))),
        ("encode_pinblock_iso_0 %s %s" % (core.show("12345"), core.show(pan)),
         "x_encode_pinblock_iso_0 %s %s" % (cl("12345"), cl(pan))),
        ("encode_pinblock_iso_0 %s %s" % (core.show("12x45"), core.show(pan)),
         "x_encode_pinblock_iso_0 %s %s" % (cl("12x45"), cl(pan))),
        ("encrypt_aes_cbc %s %s %s" % (core.show(k16), core.show(k16), core.show(k16 + k16)),
         "x_encrypt_aes_cbc %s %s %s" % (cl(k16), cl(k16), cl(k16 + k16))),
        ("adjust_key_parity %s" % core.show(k16), None),
    ]
    from psec import tr31
    kb = tr31.wrap(k16, "B0000P0TE00N0000", k8)
    cases.append(("unwrap_clear %s %s" % (core.show(k16), core.show(kb)), "x_unwrap_clear %s %s" % (cl(k16), cl(kb))))
    resp = core.run_model([c[0] for c in cases], nproc=1)
    lines = ["From Psec Require Import Lib.Base Extract.Extract.", "Open Scope N_scope."]
    n = 0
    for i, ((req, term), r) in enumerate(zip(cases, resp)):
        if term is None:
            term = "Ok (x_adjust_key_parity %s)" % cl(k16)
        lines.append("Example incoq_%d : %s = %s. Proof. vm_compute. reflexivity. Qed." % (i, term, res_term(r)))
        n += 1
    d = tempfile.mkdtemp(prefix="incoq_", dir=os.path.join(fw.VERIF, "work") if os.path.isdir(os.path.join(fw.VERIF, "work")) else None)
    path = os.path.join(d, "incoq_cases.v")
    with open(path, "w") as f:
        f.write("\n".join(lines) + "\n")
    try:
        r = subprocess.run(["coqc", "-R", fw.COQ, "Psec", path], cwd=d, capture_output=True, text=True, timeout=600)
        problems = [] if r.returncode == 0 else [{"in_coq_vs_driver": (r.stdout + r.stderr)[-600:], "file": "\n".join(lines)[:1500]}]
    except subprocess.TimeoutExpired:
        problems = [{"in_coq_vs_driver": "coqc timeout"}]
    finally:
        for fn in os.listdir(d):
            os.unlink(os.path.join(d, fn))
        os.rmdir(d)
    return n, problems
