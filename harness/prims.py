"""Conformance of the modelled Python primitives (coq/Lib/Base.v) against
CPython, on random and boundary arguments ("cover the glue")."""
import binascii

from harness import core
from psec import tools

HOSTILE = ["０", "٣", "²", "+", "-", "_", " ", "\x00", "\n", "\t", "\x0b", "\x0c", "\r", "é", "\udc80",
           "\U0001d7d8", "G", "g", "@", "`", "/", ":", "~", "\x7f", "\x1f", "ß", "ǅ", "ı", "ſ", "K"]


def rand_text(rng, alphabet, n):
    return "".join(rng.choice(alphabet) for _ in range(n))


def check(rng, thorough):
    lines, expect = [], []

    def add(line, exp):
        lines.append(line)
        expect.append(exp)

    hexa = "0123456789abcdefABCDEF"
    n = 200 if thorough else 40
    for _ in range(n):
        # bytes.fromhex: hex pairs with white space / junk sprinkled in
        s = rand_text(rng, hexa, rng.randrange(0, 12))
        for _ in range(rng.randrange(0, 3)):
            pos = rng.randrange(0, len(s) + 1)
            s = s[:pos] + rng.choice([" ", "\t", "\n", "\r", "\x0b", "\x0c", "g", "é", "\x1c", "\x85", "\xa0", "０"]) + s[pos:]
        try:
            exp = "OK " + core.show(bytes.fromhex(s))
        except ValueError:
            exp = "ERR ValueError"
        add("p_fromhex " + core.show(s), exp)
        try:
            exp = "OK " + core.show(binascii.a2b_hex(s))
        except (binascii.Error, ValueError):
            exp = "ERR Crash:binascii.Error"
        add("p_a2b " + core.show(s), exp)
        v = rng.choice([0, 1, 9, 10, 99, 100, 255, 256, 9999, 65535, 65536, rng.randrange(0, 10**9)])
        add("p_str_of_N %d" % v, "OK " + core.show(str(v)))
        k = rng.randrange(0, 5)
        try:
            exp = "OK " + core.show(v.to_bytes(k, "big"))
        except OverflowError:
            exp = "ERR Crash:OverflowError"
        add("p_to_bytes_be %d %d" % (k, v), exp)
        b = rng.randbytes(rng.randrange(0, 9))
        add("p_hex_lower " + core.show(b), "OK " + core.show(b.hex()))
        add("p_hex_upper " + core.show(b), "OK " + core.show(b.hex().upper()))
        # character classes incl. hostile code points
        alpha = "0123456789abcxyzABCXYZ!~ pPbB" + "".join(HOSTILE)
        t = rand_text(rng, alpha, rng.randrange(0, 4))
        if rng.random() < 0.5:
            t = rand_text(rng, "pPbB" + "ƿþꝑｐ", 2)
        cls = [tools.ascii_numeric(t), tools.ascii_alphanumeric(t), tools.ascii_printable(t),
               tools.ascii_hexchar(t), len(t) == 2 and t.upper() == "PB"]
        add("p_class " + core.show(t), "OK " + ",".join("1" if x else "0" for x in cls))
        a = rand_text(rng, "0123456789abcdefxyzABCDEFXYZ", rng.randrange(0, 6))
        add("p_upper " + core.show(a), "OK " + core.show(a.upper()))
        d = rand_text(rng, "0123456789", rng.randrange(1, 6))
        add("p_int_of_dec " + core.show(d), "OK %d" % int(d))
        h = rand_text(rng, hexa, rng.randrange(1, 10))
        add("p_int_of_hex " + core.show(h), "OK %d" % int(h, 16))
        try:
            exp = "OK " + core.show(t.encode("ascii"))
        except UnicodeEncodeError:
            exp = "ERR Crash:UnicodeEncodeError"
        add("p_encode_ascii " + core.show(t), exp)
    bad = []
    for l, x, r in zip(lines, expect, core.run_model(lines)):
        if r != x:
            bad.append({"request": l, "cpython": x, "model": r})
    count = len(lines)
    if thorough:
        # the pad-block id test: no code point other than p P b B upper-cases to P / B
        extra = [cp for cp in range(0x110000) if chr(cp).upper() in ("P", "B") and chr(cp) not in "pPbB"]
        multi = [cp for cp in range(0x110000) if chr(cp).upper() in ("PB",)]
        count += 0x110000
        if extra or multi:
            bad.append({"request": "upper() sweep", "cpython": str(extra + multi), "model": "only pPbB"})
    return count, bad
