"""Shared structured value generators: mostly-valid values with the shapes that
matter (repeated key components, leading zeros, boundary lengths) and one-argument
variants for history-style sequences."""
DIG = "0123456789"
WEAK_DES = [bytes.fromhex(x) for x in (
    "0101010101010101", "FEFEFEFEFEFEFEFE", "E0E0E0E0F1F1F1F1", "1F1F1F1F0E0E0E0E",          # weak
    "011F011F010E010E", "1F011F010E010E01", "01E001E001F101F1", "E001E001F101F101", "01FE01FE01FE01FE", "FE01FE01FE01FE01",
    "1FE01FE00EF10EF1", "E01FE01FF10EF10E", "1FFE1FFE0EFE0EFE", "FE1FFE1FFE0EFE0E", "E0FEE0FEF1FEF1FE", "FEE0FEE0FEF1FEF1",  # semi-weak
    "0000000000000000", "FFFFFFFFFFFFFFFF")]


def key(rng, n):
    """n-byte key with structure: random / all equal bytes / repeated 8-byte component (K1K2K1, KKK) /
    parity-adjusted / containing 0x00 and 0xFF"""
    k = rng.randrange(14)
    if k <= 3 or n < 8:
        return rng.randbytes(n)
    if k >= 12:
        return text_like_bytes(rng, n)
    if k >= 10:
        # DES weak and semi-weak keys as components (legal key material: every standard defines the result for them)
        parts = [rng.choice(WEAK_DES) if rng.random() < 0.7 else rng.randbytes(8) for _ in range(4)]
        if not any(p in WEAK_DES for p in parts[:max(1, n // 8)]):
            parts[0] = rng.choice(WEAK_DES)
        return b"".join(parts)[:n] + rng.randbytes(max(0, n - 32))
    if k == 4:
        if rng.random() < 0.5:      # a real DES key: every byte with odd parity
            return bytes(b if bin(b).count("1") % 2 else b ^ 1 for b in rng.randbytes(n))
        return bytes([rng.randrange(256)]) * n
    comp = [rng.randbytes(8) for _ in range(3)]
    if k == 5:
        parts = [comp[0], comp[1], comp[0]]          # K1 K2 K1
    elif k == 6:
        parts = [comp[0], comp[0], comp[0]]          # K K K
    elif k == 7:
        parts = [comp[0], comp[0], comp[2]]          # K1 K1 K3
    elif k == 8:
        parts = [comp[0], comp[1], comp[1]]          # K1 K2 K2
    else:
        parts = [b"\xff" * 8, b"\x00" * 8, comp[2]]
    out = b"".join(parts) + rng.randbytes(n)
    return out[:n]


def digits(rng, n):
    """n decimal digits with structure: random / leading zeros / trailing zeros / all same"""
    if n == 0:
        return ""
    k = rng.randrange(6)
    s = "".join(rng.choice(DIG) for _ in range(n))
    if k == 0:
        z = rng.randrange(1, min(n, 4) + 1)
        s = "0" * z + s[z:]
        if n > z and s[z] == "0":
            s = s[:z] + "7" + s[z + 1:]
    elif k == 1:
        z = rng.randrange(1, min(n, 4) + 1)
        s = s[:n - z] + "0" * z
    elif k == 2:
        s = rng.choice(DIG) * n
    return s


def variants_generic(rng):
    """default one-argument variants: bytes -> same length other value, +-1 byte; str digits -> other digits, +-1 char; int -> +-1"""
    def f(fn, args, i):
        a = args[i]
        if isinstance(a, (bytes, bytearray)):
            a = bytes(a)
            out = [rng.randbytes(len(a)), a + b"\x00", a[:-1]]
            if a:      # neighbours sharing a prefix / a suffix / all but one bit / all but the parity bits
                out += [a[:-1] + bytes([a[-1] ^ 0x10]), bytes([a[0] ^ 0x02]) + a[1:], bytes(b ^ 1 for b in a),
                        a[:len(a) // 2] + rng.randbytes(len(a) - len(a) // 2)]
            return out
        if isinstance(a, str):
            dec = bool(a) and all(c in DIG for c in a)       # ASCII digits only (str.isdigit is true for U+00B2 etc.)
            alt = "".join(rng.choice(DIG) for _ in a) if dec else a.swapcase()
            out = [alt, a + "0", a[:-1]]
            if dec:
                # same length: same suffix with another first digit, same prefix with another last digit; the same number
                # with a leading zero more / less
                out += [DIG[(int(a[0]) + 1) % 10] + a[1:], a[:-1] + DIG[(int(a[-1]) + 3) % 10], "0" + a, a.lstrip("0") or "0"]
            return out
        if isinstance(a, bool) or a is None:
            return []
        if isinstance(a, int):
            return [a + 1, max(0, a - 1), a + 2, a + 8, 0]
        return []
    return f


def special_bytes(rng, n, like=None):
    """n bytes with structure: all zero / all 0xFF / one repeated byte / a repeated 8- or 16-byte block /
    a copy of (the start of) `like` / 0x80-then-zeros tail / random"""
    k = rng.randrange(8)
    if n == 0:
        return b""
    if k == 0:
        return bytes(n)
    if k == 1:
        return b"\xff" * n
    if k == 2:
        return bytes([rng.randrange(256)]) * n
    if k == 3:
        blk = rng.randbytes(rng.choice((8, 16)))
        return (blk * (n // len(blk) + 1))[:n]
    if k == 4 and like:
        return (bytes(like) * (n // len(like) + 1))[:n]
    if k == 5:
        z = rng.randrange(0, min(n, 16))
        return rng.randbytes(n - z - 1) + b"\x80" + bytes(z)
    return rng.randbytes(n)


def text_like_bytes(rng, n):
    """binary values that happen to be text: only ASCII hex characters (upper / lower / mixed), only decimal digits,
    one repeated character, printable ASCII - a value that is also valid hex / decimal text of half its size"""
    k = rng.randrange(6)
    if k == 0:
        return bytes(rng.choice(b"0123456789ABCDEF") for _ in range(n))
    if k == 1:
        return bytes(rng.choice(b"0123456789abcdef") for _ in range(n))
    if k == 2:
        return bytes(rng.choice(b"0123456789") for _ in range(n))
    if k == 3:
        return bytes([rng.choice(b"0123456789ABCDEFabcdef")]) * n
    if k == 4:
        return (b"0123456789ABCDEF" * (n // 16 + 1))[:n]
    return bytes(rng.randrange(32, 127) for _ in range(n))


def kcv_colliding_pair(rng, size, nbytes=2):
    """two DIFFERENT DES/TDES keys of `size` bytes whose key check values (leftmost nbytes of E_k(0)) are equal: code that
    decides 'same key' through a KCV or another short digest treats them as one key.  Birthday search with the
    independent single-block oracle."""
    from harness import oracles as o
    seen = {}
    for _ in range(200000):
        k = rng.randbytes(size)
        kcv = o.E("des", k, bytes(8))[:nbytes]
        if kcv in seen and seen[kcv] != k:
            return seen[kcv], k
        seen[kcv] = k
    return None


SPECIAL_BLOCKS = [bytes(8), b"\xff" * 8, bytes.fromhex("0123456789ABCDEF"), bytes.fromhex("FEDCBA9876543210")] + [bytes([0x11 * v]) * 8 for v in (1, 5, 9, 10, 11, 12, 13, 14)]


def chosen_ciphertext(rng, keysize, target, legal, tries=40000):
    """a key of `keysize` bytes under which the 8-byte TDES ciphertext block `target` decrypts to a plaintext that
    `legal(nibbles)` turns into arguments (else None): special cipher blocks - all zero, one repeated hex digit,
    0123456789ABCDEF - are as legal as any other, but no random input ever produces them.  -> (key, arguments) or None"""
    from harness import oracles as o
    for _ in range(tries):
        k = rng.randbytes(keysize)
        args = legal(o.nibbles(o.D("des", k, target)))
        if args is not None:
            return k, args
    return None
