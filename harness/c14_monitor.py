"""C14 runtime monitor.  Runs in its own interpreter: os.urandom and
random._urandom are wrapped BEFORE psec is imported, so every draw from the OS
generator made by psec is observed, however psec imports or calls it.
Prints one JSON object."""
import json
import itertools
import math
import os
import sys

_real_urandom = os.urandom
DRAWN = [0]
LOG = []          # the byte strings the OS generator returned, in order, since the last reset


def _counting_urandom(n):
    DRAWN[0] += n
    b = _real_urandom(n)
    LOG.append(b)
    if len(LOG) > 4096:
        del LOG[:2048]
    return b


os.urandom = _counting_urandom
import random  # noqa: E402

random._urandom = _counting_urandom
import secrets  # noqa: E402,F401

VERIF = os.path.dirname(os.path.dirname(os.path.abspath(__file__)))
sys.path.insert(0, VERIF)
sys.path.insert(0, os.environ.get("PSEC_VERIF_REPO", "/repo"))
import warnings  # noqa: E402

warnings.simplefilter("ignore")
from harness import oracles as o  # noqa: E402
from psec import pinblock, tr31  # noqa: E402

seed = int(sys.argv[1])
N = int(sys.argv[2])
gen = random.Random("c14-%d" % seed)     # the harness's own PRNG (an instance: module state untouched)
viol = []
stats = {}
LAST = [b""]       # OS bytes returned during the last monitored call
derivation = {"format3": [], "mismatch": [], "checked": {"format3": 0, "format4_field": 0, "format4_block": 0, "tr31": 0}}


def mirror_choices(stream, n):
    """Python mirror of Model/Entropy.v draw (validated against the extracted model by the caller on a sample)"""
    out = []
    for b in stream:
        if len(out) == n:
            break
        if b >> 5 < 6:
            out.append(b >> 5)
    return out if len(out) == n else None
TESTS = 16384                             # upper bound on the number of frequency tests of one run
EPS = math.sqrt((math.log(2) * (60 + math.log2(TESTS)) + math.log(2)) / (2 * N))   # Hoeffding: total failure < 2^-60


def monitored(f, *a):
    """-> (result, OS bytes drawn during the call, module PRNG state unchanged?)"""
    st = random.getstate()
    d0 = DRAWN[0]
    del LOG[:]
    r = f(*a)
    LAST[0] = b"".join(LOG)
    return r, DRAWN[0] - d0, random.getstate() == st


def freq_check(name, columns, alphabet):
    """columns: list of per-position symbol lists; every symbol of the alphabet near-uniform, nothing else"""
    for pos, col in enumerate(columns):
        n = len(col)
        if n < N // 2:
            continue
        for sym in set(col):
            if sym not in alphabet:
                viol.append({"what": "%s: value outside the alphabet at position %d" % (name, pos), "observed": repr(sym)})
        p = 1.0 / len(alphabet)
        eps = EPS * math.sqrt(N / n)
        for sym in alphabet:
            f = col.count(sym) / n
            if abs(f - p) > eps:
                viol.append({"what": "%s: frequency of %r at position %d is %.3f, expected %.3f +- %.3f over %d calls"
                                     % (name, sym, pos, f, p, eps, n)})


def bit_freq_check(name, rows):
    """rows: list of equal-length byte strings; every bit of every position near 1/2"""
    if not rows:
        return
    n = len(rows)
    for pos in range(len(rows[0])):
        for bit in range(8):
            f = sum((r[pos] >> bit) & 1 for r in rows) / n
            if abs(f - 0.5) > EPS * math.sqrt(N / n):
                viol.append({"what": "%s: bit %d of byte %d has frequency %.3f over %d calls" % (name, bit, pos, f, n)})


def byte_stat_check(name, rows):
    """pooled byte statistics of a group of random strings: byte parity balance and the frequency of every value of
    the high and of the low nibble (catches value sets that keep every single bit balanced, e.g. parity-adjusted bytes)"""
    data = b"".join(rows)
    n = len(data)
    if n < N // 4:
        return
    eps = EPS * math.sqrt(N / n)
    even = sum(1 for b in data if bin(b).count("1") % 2 == 0) / n
    if abs(even - 0.5) > eps:
        viol.append({"what": "%s: fraction of even-parity bytes is %.3f over %d bytes (expected 0.5 +- %.3f)" % (name, even, n, eps)})
    for shift, part in ((4, "high"), (0, "low")):
        for val in range(16):
            f = sum(1 for b in data if (b >> shift) & 15 == val) / n
            if abs(f - 1 / 16) > eps:
                viol.append({"what": "%s: %s nibble value %X has frequency %.3f over %d bytes (expected 0.0625 +- %.3f)" % (name, part, val, f, n, eps)})


def joint_cover_check(name, tuples, alphabet):
    """every value of alphabet^width must occur among the observed tuples (all of one width).  Applied only when the
    sample is large enough that a uniform source misses some value with probability < 2^-60 (union bound):
    K (1 - 1/K)^n < 2^-60  <=  n >= K (60 ln 2 + ln K)."""
    if not tuples:
        return
    width = len(tuples[0])
    K = len(alphabet) ** width
    n = len(tuples)
    if n < K * (60 * math.log(2) + math.log(K)) + 1:
        return
    seen = set(tuples)
    stats["joint_cover_tests"] = stats.get("joint_cover_tests", 0) + 1
    if len(seen & set(itertools.product(alphabet, repeat=width))) < K:
        missing = [t for t in itertools.product(alphabet, repeat=width) if t not in seen][:4]
        viol.append({"what": "%s: %d of the %d admissible %d-symbol values never occurred in %d calls, e.g. %r"
                             % (name, K - len(seen & set(itertools.product(alphabet, repeat=width))), K, width, n, missing)})


def byte_cover_check(name, rows):
    """pooled: every byte value 0..255 occurs (same 2^-60 rule)"""
    data = b"".join(rows)
    if len(data) < 256 * (60 * math.log(2) + math.log(256)) + 1:
        return
    stats["byte_cover_tests"] = stats.get("byte_cover_tests", 0) + 1
    miss = sorted(set(range(256)) - set(data))
    if miss:
        viol.append({"what": "%s: byte values %s never occurred in %d random bytes" % (name, [hex(x) for x in miss[:6]], len(data))})


def nibble_cover_check(name, rows):
    """per position: every value 0..15 of the high and of the low nibble of every byte position occurs (rows of one length).
    Applied only when a uniform source misses some (position, value) with probability < 2^-60 (union bound):
    32 L (15/16)^n < 2^-60.  Catches formatting that drops leading zeros or pads on one side (first nibble never 0)."""
    if not rows:
        return
    L, n = len(rows[0]), len(rows)
    if any(len(r) != L for r in rows) or n < (60 * math.log(2) + math.log(32 * L)) / -math.log(15 / 16) + 1:
        return
    stats["nibble_cover_tests"] = stats.get("nibble_cover_tests", 0) + 1
    for pos in range(L):
        for shift, part in ((4, "high"), (0, "low")):
            miss = sorted(set(range(16)) - {(r[pos] >> shift) & 15 for r in rows})
            if miss:
                viol.append({"what": "%s: %s nibble of byte %d never took the value(s) %s in %d calls" % (name, part, pos, ["%X" % m for m in miss], n)})


def call_sequences():
    """the freshness workload: (name, thunk) whose outputs carry >= 128 bits of fill"""
    pan = "4000001234567899"
    key = bytes(range(16))
    hdr = "B0000P0TE00N0000"
    return [
        ("format3 x8", lambda: b"".join(pinblock.encode_pinblock_iso_3("1234", pan) for _ in range(8))),
        ("format4 field x2", lambda: b"".join(pinblock.encode_pin_field_iso_4("123456") for _ in range(2))),
        ("format4 block x2", lambda: b"".join(pinblock.encipher_pinblock_iso_4(key, "123456", pan) for _ in range(2))),
    ] + [("tr31 %s x3" % v, (lambda v=v: "".join(tr31.wrap(bytes(range(16)), v + hdr[1:], bytes(16)) for _ in range(3)))) for v in "ABCD"]


# ---------------------------------------------------------------- format 3
for L in range(4, 13):
    cols = [[] for _ in range(14 - L)]
    outs = set()
    fills = []
    for _ in range(max(N, 10200) if L == 11 else N):   # 3-digit fill: enough calls for the joint test over all 216 values
        pin = "".join(gen.choice("0123456789") for _ in range(L))
        pan = "".join(gen.choice("0123456789") for _ in range(gen.randrange(13, 20)))
        blk, drawn, same = monitored(pinblock.encode_pinblock_iso_3, pin, pan)
        nib = o.xor_nibbles(o.nibbles(blk), o.pan_block(pan))
        fill = nib[2 + L:]
        for i, x in enumerate(fill):
            cols[i].append(x)
        fills.append(tuple(fill))
        # log2(6^(14-L)) bits of fill must have come from the OS generator
        need = math.ceil((14 - L) * math.log2(6) / 8)
        if drawn < need:
            viol.append({"what": "format 3: %d fill digits but only %d bytes drawn from the OS generator" % (14 - L, drawn)})
        if not same:
            viol.append({"what": "format 3: the user-space random module state changed during the call"})
        if nib[:2 + L] != [3, L] + [int(c) for c in pin]:
            viol.append({"what": "format 3: deterministic prefix wrong"})
        # derivation: fill = "ABCDEF"[symbol] for the symbols the model draws from the OS bytes of this call
        syms = mirror_choices(LAST[0], 14 - L)
        derivation["checked"]["format3"] += 1
        if syms is None or [10 + x for x in syms] != fill:
            if len(derivation["mismatch"]) < 20:
                derivation["mismatch"].append({"what": "format 3 fill is not secrets.choice's function of the OS bytes drawn in the call",
                                               "pin_len": L, "os_bytes": LAST[0].hex(), "fill": fill, "model_symbols": syms})
        elif len(derivation["format3"]) < 400 and gen.random() < 0.05:
            derivation["format3"].append([list(LAST[0]), 14 - L, fill])
    freq_check("format 3 fill (PIN length %d)" % L, cols, [10, 11, 12, 13, 14, 15])
    # joint: whole fill when short enough, and every window of 2 and 3 adjacent fill digits
    joint_cover_check("format 3 whole fill (PIN length %d)" % L, fills, [10, 11, 12, 13, 14, 15])
    for w in (2, 3):
        for i in range(0, 14 - L - w + 1):
            joint_cover_check("format 3 fill digits %d..%d (PIN length %d)" % (i, i + w - 1, L), [f[i:i + w] for f in fills], [10, 11, 12, 13, 14, 15])
    stats["format3_L%d" % L] = len(fills)
# ---------------------------------------------------------------- format 4 field / block
rows = []
for _ in range(N):
    L = gen.randrange(4, 13)
    pin = "".join(gen.choice("0123456789") for _ in range(L))
    f, drawn, same = monitored(pinblock.encode_pin_field_iso_4, pin)
    rows.append(f[8:])
    if drawn < 8 or not same:
        viol.append({"what": "format 4 PIN field: %d OS bytes drawn (need 8); random state unchanged: %s" % (drawn, same)})
    derivation["checked"]["format4_field"] += 1
    if f[8:] != LAST[0] and f[8:] not in LAST[0] and len(derivation["mismatch"]) < 20:
        derivation["mismatch"].append({"what": "format 4 PIN field tail is not the OS bytes drawn in the call", "os_bytes": LAST[0].hex(), "tail": f[8:].hex()})
    if o.nibbles(f)[:16] != o.pin_field4_nibbles(pin, b"")[:16]:
        viol.append({"what": "format 4 PIN field: deterministic half wrong"})
bit_freq_check("format 4 PIN field tail", rows)
byte_stat_check("format 4 PIN field tail", rows)
byte_cover_check("format 4 PIN field tail", rows)
nibble_cover_check("format 4 PIN field tail", rows)
stats["format4_field"] = N
rows = []
for _ in range(N // 2):
    key = gen.randbytes(gen.choice((16, 24, 32)))
    pin = "".join(gen.choice("0123456789") for _ in range(gen.randrange(4, 13)))
    pan = "".join(gen.choice("0123456789") for _ in range(gen.randrange(1, 20)))
    blk, drawn, same = monitored(pinblock.encipher_pinblock_iso_4, key, pin, pan)
    pf = o.D("aes", key, o.xor(o.D("aes", key, blk), o.from_nibbles(o.pan_field4_nibbles(pan))))
    rows.append(pf[8:])
    if drawn < 8 or not same:
        viol.append({"what": "format 4 block: %d OS bytes drawn (need 8); random state unchanged: %s" % (drawn, same)})
    derivation["checked"]["format4_block"] += 1
    if pf[8:] != LAST[0] and pf[8:] not in LAST[0] and len(derivation["mismatch"]) < 20:
        derivation["mismatch"].append({"what": "format 4 block: the deciphered PIN field tail is not the OS bytes drawn in the call",
                                       "os_bytes": LAST[0].hex(), "tail": pf[8:].hex()})
bit_freq_check("format 4 block tail", rows)
nibble_cover_check("format 4 block tail", rows)
stats["format4_block"] = N // 2
# ---------------------------------------------------------------- TR-31 key padding
consumption = {}     # (version, padding length) -> {OS bytes drawn: calls}
one_byte = {}
for v in "ABCD":
    bs = 16 if v == "D" else 8
    groups = {}
    for _ in range(N):
        kbpk = gen.randbytes(16)
        kl = gen.choice([8, 16, 24, 6, 14, 22, 30])
        key = gen.randbytes(kl)
        if gen.random() < 0.5:      # a real DES key: every byte odd parity
            key = bytes(b if bin(b).count("1") % 2 else b ^ 1 for b in key)
        mask = gen.choice([None, None, 32, 22, 30, 14, 46])
        alg = gen.choice("TTAHR")        # H, R: no default mask, so 2 + len(key) can be block-aligned
        kb, drawn, same = monitored(tr31.wrap, kbpk, v + "0000P0" + alg + "E00N0000", key, mask)
        clear = o.tr31_clear(kbpk, kb)
        pad = clear[2 + kl:]
        if int.from_bytes(clear[:2], "big") != 8 * kl or clear[2:2 + kl] != key:
            viol.append({"what": "TR-31 %s: clear key data does not start with length + key" % v})
        derivation["checked"]["tr31"] += 1
        consumption.setdefault((v, len(pad)), {}).setdefault(drawn, 0)
        consumption[(v, len(pad))][drawn] += 1
        if pad != LAST[0] and pad not in LAST[0] and len(derivation["mismatch"]) < 20:
            derivation["mismatch"].append({"what": "TR-31 %s: the key padding is not the OS bytes drawn in the call (model: tape = pad, verbatim)" % v,
                                           "os_bytes": LAST[0].hex(), "pad": pad.hex(), "key_len": kl, "mask": mask, "algorithm": alg})
        if drawn < len(pad) or not same:
            viol.append({"what": "TR-31 %s: %d padding bytes but %d OS bytes drawn; random state unchanged: %s" % (v, len(pad), drawn, same)})
        # the whole pad must be random: look at its head and at its tail, separately for the case where the key
        # data was already block-aligned (a full extra block of padding) and the ordinary case
        m = max(kl, {"T": 24, "D": 24, "A": 32}.get(alg, kl) if mask is None else mask)
        aligned = (2 + m) % bs == 0
        parity_key = all(bin(b).count("1") % 2 for b in key) and len(key) > 0
        groups.setdefault(("aligned" if aligned else "ordinary", "head"), []).append(pad[:1])
        extra = m - kl
        if extra >= 4:
            groups.setdefault(("des-parity key" if parity_key else "random key", "alg " + alg, "masking bytes"), []).append(pad[:4])
        if len(pad) >= bs:
            groups.setdefault(("aligned" if aligned else "ordinary", "tail%d" % bs), []).append(pad[-bs:])
        groups.setdefault(("all", "tail1"), []).append(pad[-1:])
    # one-byte paddings (2 + key length one short of a block, no masking): every extra draw for the same padding length is
    # a data-dependent redraw (uniform bytes need no rejection sampling) and removes values from the fill
    for _ in range(max(1500, N // 2)):
        kbpk, key = gen.randbytes(16), gen.randbytes(13)
        kb, drawn, same = monitored(tr31.wrap, kbpk, v + "0000P0HE00N0000", key, None)
        clear = o.tr31_clear(kbpk, kb)
        pad = clear[2 + 13:]
        consumption.setdefault((v, len(pad)), {}).setdefault(drawn, 0)
        consumption[(v, len(pad))][drawn] += 1
        one_byte.setdefault(v, []).append(pad)
        if pad != LAST[0] and pad not in LAST[0] and len(derivation["mismatch"]) < 20:
            derivation["mismatch"].append({"what": "TR-31 %s: the one-byte key padding is not an OS byte drawn in the call" % v, "os_bytes": LAST[0].hex(), "pad": pad.hex()})
    stats["tr31_%s_one_byte_pad" % v] = max(1500, N // 2)
    for gk, rows in groups.items():
        bit_freq_check("TR-31 %s key padding %s" % (v, gk), rows)
        byte_stat_check("TR-31 %s key padding %s" % (v, gk), rows)
        byte_cover_check("TR-31 %s key padding %s" % (v, gk), rows)
        nibble_cover_check("TR-31 %s key padding %s" % (v, gk), rows)
    stats["tr31_" + v] = N
for (v, plen), by_drawn in sorted(consumption.items()):
    if len(by_drawn) > 1:
        derivation["mismatch"].append({"what": "TR-31 %s: the number of OS bytes drawn for a padding of %d bytes varies between calls %r - a data-dependent "
                                               "redraw of the padding (the model consumes exactly the padding length, once)" % (v, plen, dict(by_drawn))})
# ---------------------------------------------------------------- freshness of sequences
for name, thunk in call_sequences():
    a, b = thunk(), thunk()
    if a == b:
        viol.append({"what": "freshness: two runs of '%s' produced identical output" % name})
    random.seed(0)
    a = thunk()
    random.seed(0)
    b = thunk()
    if a == b:
        viol.append({"what": "freshness: '%s' repeats after random.seed(0) (fill reproducible from user-space generator state)" % name})
    # across fork: parent and child must not produce the same sequence
    r, w = os.pipe()
    pid = os.fork()
    if pid == 0:
        os.close(r)
        out = thunk()
        os.write(w, (out.hex() if isinstance(out, bytes) else out).encode())
        os._exit(0)
    os.close(w)
    parent = thunk()
    child = b""
    while True:
        chunk = os.read(r, 65536)
        if not chunk:
            break
        child += chunk
    os.close(r)
    os.waitpid(pid, 0)
    if child.decode() == (parent.hex() if isinstance(parent, bytes) else parent):
        viol.append({"what": "freshness: '%s' identical in parent and forked child" % name})
    stats["fresh_" + name] = 3
print(json.dumps({"derivation": derivation, "violations": viol, "stats": stats, "eps": EPS, "calls": sum(v for k, v in stats.items() if not k.startswith("fresh_"))}))
