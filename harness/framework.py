"""Check framework: proof stage, model sanity, conclusion (evidence, replay,
known findings)."""
import glob
import hashlib
import json
import os
import random
import re
import subprocess
import time

VERIF = os.path.dirname(os.path.dirname(os.path.abspath(__file__)))
COQ = os.path.join(VERIF, "coq")

ALLOWED_AXIOMS = set()  # the development targets "Closed under the global context"

TRUSTED_BASE = [
    "Coq 8.16.1 kernel incl. its vm_compute VM (finite sweeps, vector Examples); no native_compute",
    "axioms: none (every property theorem prints 'Closed under the global context')",
    "premise, not axiom: cipher_ok / des_ok for the abstract block ciphers (inhabited: Cipher/Toy.v)",
    "hand-written Gallina model coq/Model/*.v of psec (modelled, tied to /repo by this run's correspondence)",
    "modelled not verified: CPython semantics of the primitives in coq/Lib/Base.v, cryptography/OpenSSL "
    "(key/IV size checks, ECB/CBC without padding, streaming update), little-endian host, os.urandom",
    "extraction: Require Extraction + ExtrOcamlBasic only (Extract Inductive bool/option/unit/list/prod/"
    "sumbool/sumor, Extract Inlined Constant andb/orb); N, positive, nat, Z stay inductives; OCaml 4.13.1; ocaml/driver.ml",
    "correspondence harness (harness/*.py): generators, canonicalisation, diff",
]

FORBIDDEN = [
    r"\bAdmitted\b", r"\badmit\b", r"\bAxiom\b", r"\bAxioms\b", r"\bParameter\b", r"\bParameters\b",
    r"\bConjecture\b", r"\bAdmit\s+Obligations\b", r"\bUnset\s+Guard", r"bypass_check",
    r"type-in-type", r"impredicative-set", r"\bUnset\s+Universe\s+Checking", r"\bUnset\s+Positivity",
    r"\bnative_compute\b",
]


def limit_mem():
    """preexec_fn for coqc / coqchk: never let a runaway proof search eat the machine"""
    import resource
    lim = 16 * 1024 ** 3
    resource.setrlimit(resource.RLIMIT_AS, (lim, lim))


class Ctx:
    def __init__(self, pid, tier, seed):
        self.pid = pid
        self.tier = tier
        self.seed = seed
        self.rng = random.Random("%s-%d" % (pid, seed))
        self.thorough = tier == "thorough"

    def n(self, quick, thorough):
        return thorough if self.thorough else quick


# ------------------------------------------------------------------ proof stage
def strip_comments(src):
    out, depth, i = [], 0, 0
    while i < len(src):
        if src.startswith("(*", i):
            depth += 1
            i += 2
        elif src.startswith("*)", i) and depth:
            depth -= 1
            i += 2
        else:
            if depth == 0:
                out.append(src[i])
            i += 1
    return "".join(out)


def scan_development():
    """token-wise scan of every .v file for constructs that would make a proof void"""
    bad = []
    for f in sorted(glob.glob(os.path.join(COQ, "**", "*.v"), recursive=True)):
        src = strip_comments(open(f).read())
        # strings cannot hide vernacular; remove them to avoid false hits
        src = re.sub(r'"[^"]*"', '""', src)
        for pat in FORBIDDEN:
            for m in re.finditer(pat, src):
                bad.append("%s: %s" % (os.path.relpath(f, COQ), m.group(0)))
        # Variable / Hypothesis outside a Section
        depth = 0
        for m in re.finditer(r"\b(Section|End|Module|Variable|Variables|Hypothesis|Hypotheses|Context)\b\s+([A-Za-z_0-9']*)", src):
            kw = m.group(1)
            if kw == "Section":
                depth += 1
            elif kw == "End":
                depth = max(0, depth - 1)
            elif kw in ("Variable", "Variables", "Hypothesis", "Hypotheses", "Context") and depth == 0:
                bad.append("%s: %s outside a Section" % (os.path.relpath(f, COQ), kw))
    return bad


def proof_stage(pid, tier, pre=None):
    """Re-check Properties/<pid>.v; returns dict(ok, obligations, discharged, detail, checker_cmd)"""
    if pre:
        pre()
    vfile = os.path.join("Properties", pid + ".v")
    cmd = "cd coq && coqc -R . Psec " + vfile
    res = {"ok": False, "obligations": 0, "discharged": 0, "detail": "", "checker_cmd": cmd,
           "theorems": [], "axioms": []}
    if not os.path.exists(os.path.join(COQ, vfile)):
        res["detail"] = "missing " + vfile
        return res
    src = strip_comments(open(os.path.join(COQ, vfile)).read())
    theorems = re.findall(r"\bTheorem\s+([A-Za-z_0-9']+)", src)
    prints = [p.rstrip('.') for p in re.findall(r"\bPrint\s+Assumptions\s+([A-Za-z_0-9'.]+)", src)]
    res["theorems"] = theorems
    res["obligations"] = len(theorems)
    missing = [t for t in theorems if t not in prints]
    try:
        r = subprocess.run(["coqc", "-R", ".", "Psec", vfile], cwd=COQ, capture_output=True,
                           text=True, timeout=900, preexec_fn=limit_mem)
    except subprocess.TimeoutExpired:
        res["detail"] = "coqc timeout on " + vfile
        return res
    out = r.stdout + r.stderr
    if r.returncode != 0:
        res["detail"] = "coqc failed on %s: %s" % (vfile, out[-1500:])
        return res
    closed = len(re.findall(r"Closed under the global context", out))
    axiom_blocks = re.findall(r"Axioms:\n((?:.+\n?)+?)(?:\n|$)", out)
    axioms = []
    for b in axiom_blocks:
        for line in b.split("\n"):
            m = re.match(r"^([A-Za-z_0-9'.]+)\s*:", line)
            if m:
                axioms.append(m.group(1))
    res["axioms"] = sorted(set(axioms))
    bad_ax = [x for x in axioms if x not in ALLOWED_AXIOMS]
    res["discharged"] = closed
    bad = scan_development()
    problems = []
    if missing:
        problems.append("no Print Assumptions for: " + ", ".join(missing))
    if closed != len(theorems) or bad_ax:
        problems.append("assumptions not closed: %d/%d closed, axioms %s" % (closed, len(theorems), bad_ax))
    if bad:
        problems.append("forbidden constructs: " + "; ".join(bad[:10]))
    if not theorems:
        problems.append("no theorem in " + vfile)
    if tier == "thorough":
        logical = "Psec.Properties." + pid
        try:
            rc = subprocess.run(["coqchk", "-silent", "-o", "-R", ".", "Psec", logical], cwd=COQ,
                                capture_output=True, text=True, timeout=1500, preexec_fn=limit_mem)
            res["coqchk"] = (rc.stdout + rc.stderr)[-1200:]
            if rc.returncode != 0:
                problems.append("coqchk failed")
            res["checker_cmd"] += " && coqchk -silent -o -R . Psec " + logical
        except subprocess.TimeoutExpired:
            res["coqchk"] = "timeout (not counted as failure)"
    res["ok"] = not problems
    res["detail"] = "; ".join(problems)
    return res


# ------------------------------------------------------------------ sanity stage
def sanity_stage(ctx):
    """Gallina DES/AES against OpenSSL; modelled Python primitives against CPython."""
    from harness import core, prims
    from cryptography.hazmat.primitives.ciphers import Cipher, algorithms, modes

    rng = random.Random("sanity-%d" % ctx.seed)
    lines, expect = [], []
    for _ in range(24 if not ctx.thorough else 200):
        k, b = rng.randbytes(8), rng.randbytes(8)
        e = Cipher(algorithms.TripleDES(k), modes.ECB()).encryptor().update(b)
        lines.append("des_block_enc %s %s" % (core.show(k), core.show(b)))
        expect.append(e)
        lines.append("des_block_dec %s %s" % (core.show(k), core.show(e)))
        expect.append(b)
    for _ in range(24 if not ctx.thorough else 200):
        k, b = rng.randbytes(rng.choice([16, 24, 32])), rng.randbytes(16)
        e = Cipher(algorithms.AES(k), modes.ECB()).encryptor().update(b)
        lines.append("aes_block_enc %s %s" % (core.show(k), core.show(b)))
        expect.append(e)
        lines.append("aes_block_dec %s %s" % (core.show(k), core.show(e)))
        expect.append(b)
    bad = []
    for l, x, r in zip(lines, expect, core.run_model(lines)):
        if r != "OK " + core.show(x):
            bad.append({"request": l, "openssl": core.show(x), "model": r})
    pb = prims.check(rng, ctx.thorough)
    from harness import incoq
    os.makedirs(os.path.join(VERIF, "work"), exist_ok=True)
    ic = incoq.check(rng)
    return {"cipher_cases": len(lines), "cipher_bad": bad, "prims_cases": pb[0], "prims_bad": pb[1],
            "incoq_cases": ic[0], "incoq_bad": ic[1]}


# ------------------------------------------------------------------ output
OUT = os.environ.get("VERIF_OUT", VERIF)     # scratch output root for self-test runs against scratch trees


def write_replay(pid, obj):
    d = os.path.join(OUT, "replays")
    os.makedirs(d, exist_ok=True)
    blob = json.dumps(obj, sort_keys=True, default=str)
    path = os.path.join(d, "%s-%s.json" % (pid, hashlib.sha1(blob.encode()).hexdigest()[:12]))
    with open(path, "w") as f:
        json.dump(obj, f, indent=1, sort_keys=True, default=str)
    return path


def write_evidence(pid, tier, seed, wall, proof, result, violations=0, sanity=None, extra=None):
    cov = {}
    if proof and proof["obligations"] >= 1 and proof["discharged"] >= 1:
        cov.update({"obligations": proof["obligations"], "discharged": proof["discharged"],
                    "checker_cmd": proof["checker_cmd"], "trusted_base": TRUSTED_BASE,
                    "theorems": proof["theorems"], "axioms_reported": proof["axioms"],
                    "proof_stage_ok": proof["ok"], "proof_stage_detail": proof["detail"]})
        if "coqchk" in proof:
            cov["coqchk_tail"] = proof["coqchk"]
    else:
        # no theorem was checked in this run: only the exploration-style keys are reported
        cov.update({"trusted_base": TRUSTED_BASE, "proof_stage_ok": False,
                    "proof_stage_detail": (proof or {}).get("detail", "the Coq development did not build")})
    if result:
        for k in ("evaluations", "distinct_nontrivial", "rule", "samples", "distribution", "exhaustive",
                  "explanation", "not_covered", "impl_coverage"):
            if k in result:
                cov[k] = result[k]
        cov["correspondence_disagreements"] = len(result.get("diffs", []))
        cov["property_failures_on_impl"] = len(result.get("violations", []))
    else:
        cov.update({"evaluations": 1, "distinct_nontrivial": 2, "rule": "run aborted before the correspondence stage (counts are placeholders: 1 build attempt)", "samples": ["build failure"]})
    if sanity:
        cov["sanity"] = {"cipher_cases_vs_openssl": sanity["cipher_cases"], "cipher_mismatches": len(sanity["cipher_bad"]),
                         "python_primitive_cases": sanity["prims_cases"], "primitive_mismatches": len(sanity["prims_bad"]),
                         "in_coq_vm_compute_cases": sanity.get("incoq_cases", 0), "in_coq_mismatches": len(sanity.get("incoq_bad", []))}
    if extra:
        cov.update(extra)
    ev = {"property_id": pid, "tier": tier if tier in ("quick", "thorough") else "quick", "seed": seed,
          "level": "proof", "coverage": cov, "wall_s": round(wall, 2), "violations": violations,
          "assumptions": ["repo under test: " + os.environ.get("PSEC_VERIF_REPO", "/repo"),
                          "see coverage.trusted_base"]}
    os.makedirs(os.path.join(OUT, "evidence"), exist_ok=True)
    with open(os.path.join(OUT, "evidence", pid + ".json"), "w") as f:
        json.dump(ev, f, indent=1, default=str)


def coverage_summary(cov):
    """lines of /repo/psec executed by this run's implementation-side calls (coverage.py)"""
    out = {}
    try:
        for f in sorted(cov.get_data().measured_files()):
            _, stmts, _, missing, _ = cov.analysis2(f)
            if stmts:
                out[os.path.basename(f)] = {"statements": len(stmts), "executed": len(stmts) - len(missing),
                                            "missing_lines": missing}
    except Exception as e:  # noqa: BLE001
        out["error"] = repr(e)
    return out


def load_known(pid):
    """known_findings.txt: 'finding: property=Cxx key=<sha1 of the canonical failing input> <text>'"""
    known = {}
    p = os.path.join(VERIF, "known_findings.txt")
    if os.path.exists(p):
        for line in open(p):
            m = re.match(r"^finding:\s+property=(\S+)\s+key=(\S+)\s+(.*)$", line.strip())
            if m and m.group(1) == pid:
                known[m.group(2)] = m.group(3)
    return known


def violation_key(v):
    return hashlib.sha1(json.dumps(v.get("input"), sort_keys=True, default=str).encode()).hexdigest()[:16]


def conclude(ctx, mod, proof, sanity, result, wall):
    pid = ctx.pid
    known = load_known(pid)
    lines = []
    violations = result.get("violations", [])
    diffs = result.get("diffs", [])
    new_viol = []
    for v in violations:
        k = violation_key(v)
        if k in known:
            lines.append("KNOWN-FINDING: property=%s %s" % (pid, known[k]))
        else:
            new_viol.append(v)
    status = 0
    if new_viol:
        path = write_replay(pid, {"kind": "property-failure-on-implementation", "property": pid,
                                  "failures": new_viol[:20], "seed": ctx.seed, "tier": ctx.tier,
                                  "broken_proof_stage": proof["detail"],
                                  "correspondence_disagreements": diffs[:10]})
        lines.append("VIOLATION property=%s replay=%s" % (pid, path))
        status = 1
    else:
        broken = []
        if not proof["ok"]:
            broken.append("proof stage: " + proof["detail"])
        if diffs:
            broken.append("correspondence model/implementation: %d disagreement(s)" % len(diffs))
        if sanity["cipher_bad"]:
            broken.append("Gallina DES/AES disagree with OpenSSL")
        if sanity["prims_bad"]:
            broken.append("modelled Python primitive disagrees with CPython")
        if sanity.get("incoq_bad"):
            broken.append("extracted model disagrees with vm_compute inside Coq")
        if result.get("broken"):
            broken.extend(result["broken"])
        if broken:
            # search stage: the property's own statement over the implementation around the disagreements
            found = []
            if hasattr(mod, "search") and diffs:
                try:
                    found = mod.search(ctx, diffs) or []
                except Exception as e:  # noqa: BLE001
                    broken.append("search stage crashed: %r" % (e,))
            found = [v for v in found if violation_key(v) not in known]
            if found:
                path = write_replay(pid, {"kind": "property-failure-on-implementation", "property": pid,
                                          "failures": found[:20], "seed": ctx.seed, "tier": ctx.tier,
                                          "no_longer_checks": broken,
                                          "correspondence_disagreements": diffs[:10]})
                lines.append("VIOLATION property=%s replay=%s" % (pid, path))
            else:
                path = write_replay(pid, {"kind": "no-failing-input-found", "property": pid,
                                          "no_longer_checks": broken, "theorems": proof["theorems"],
                                          "correspondence_disagreements": diffs[:20],
                                          "sanity": {"cipher_bad": sanity["cipher_bad"][:5], "prims_bad": sanity["prims_bad"][:5], "incoq_bad": sanity.get("incoq_bad", [])[:2]},
                                          "seed": ctx.seed, "tier": ctx.tier})
                lines.append("VIOLATION property=%s replay=%s no-failing-input-found" % (pid, path))
            status = 1
    write_evidence(pid, ctx.tier, ctx.seed, wall, proof, result, violations=len(new_viol) + (1 if status and not new_viol else 0),
                   sanity=sanity)
    for l in lines:
        print(l)
    if status == 0:
        print("OK property=%s tier=%s theorems=%d/%d evaluations=%d distinct_nontrivial=%d wall=%.1fs" % (
            pid, ctx.tier, proof["discharged"], proof["obligations"], result.get("evaluations", 0),
            result.get("distinct_nontrivial", 0), wall))
    return status


def replay(mod, pid, path):
    """Re-executes the stored failing inputs on the implementation and on the model and prints both sides."""
    from harness import core
    obj = json.load(open(path))
    if hasattr(mod, "replay"):
        return mod.replay(obj)
    print("replay of %s (%s)" % (path, obj.get("kind")))
    for k in ("no_longer_checks", "broken_proof_stage"):
        if obj.get(k):
            print("  no longer checks:", obj[k])
    n = 0
    for f in obj.get("failures", []) + obj.get("correspondence_disagreements", []):
        inp = f.get("input", f)
        fn, args, types = inp.get("fn"), inp.get("args"), inp.get("types")
        print("-", f.get("what", "model/implementation disagreement"))
        if fn in core.FUNCS and args is not None and types and len(types) == len(args):
            vals = tuple(arg_decode(a, t) for a, t in zip(args, types))
            i = core.impl_call(fn, vals)
            line = core.model_line(fn, vals)
            randomised = fn in ("encode_pinblock_iso_3", "encode_pin_field_iso_4", "encipher_pinblock_iso_4")
            m = ("n/a", "randomised") if randomised else core.parse_model(core.run_model([line], nproc=1)[0])
            print("    call     :", fn, [repr(v)[:70] for v in vals])
            print("    impl now :", i)
            print("    model    :", m)
            print("    expected :", f.get("expected"), "| observed at detection:", f.get("observed"))
            n += 1
        else:
            print("    ", json.dumps(inp, default=str)[:1200])
            print("    expected :", str(f.get("expected"))[:300], "| observed:", str(f.get("observed"))[:300])
    print("%d call(s) re-executed" % n)
    return 0


# ------------------------------------------------------------------ helpers for call-style properties
def arg_type(a):
    return "bytes" if isinstance(a, (bytes, bytearray)) else "str" if isinstance(a, str) else "none" if a is None else \
        "bool" if isinstance(a, bool) else "int"


def arg_decode(text, typ):
    from harness import core
    if typ == "bytes":
        return core.unshow_bytes(text)
    if typ == "str":
        return core.unshow_str(text)
    if typ == "none":
        return None
    if typ == "bool":
        return text == "1"
    return int(text)


class _Str(str):
    """an equal but never identical text value: identity tests (`is`) on strings only work by accident of interning.
    Its display forms (format / str / repr) are deliberately NOT the value: a result may only depend on the characters."""

    def __format__(self, spec):
        return "<text>"

    def __str__(self):
        return "<text>"

    def __repr__(self):
        return "<text>"


class _Int(int):
    """an equal but never identical integer (IntEnum members, bool and user subclasses are ints too)"""


class debug_logging:
    """context manager: DEBUG logging switched on for the root logger and every psec logger (with a null handler)"""

    def __enter__(self):
        import logging
        self.logging = logging
        self.root = logging.getLogger()
        self.old = (self.root.level, logging.root.manager.disable)
        self.sink = logging.NullHandler()
        self.root.addHandler(self.sink)
        self.root.setLevel(logging.DEBUG)
        logging.disable(logging.NOTSET)
        self.touched = []
        for name in list(logging.root.manager.loggerDict):
            if name.startswith("psec"):
                lg = logging.getLogger(name)
                self.touched.append((lg, lg.level))
                lg.setLevel(logging.DEBUG)
        return self

    def __exit__(self, *exc):
        self.root.setLevel(self.old[0])
        self.root.removeHandler(self.sink)
        self.logging.disable(self.old[1])
        for lg, lv in self.touched:
            lg.setLevel(lv)
        return False


def call_result(cases, check_impl=None, nontrivial=None, rule="", model_args=None, extra_samples=3):
    """cases: list of (fn, args), executed on the implementation IN ORDER, repeats included (so that state
    left behind by an earlier call - a cache, a buffered cipher context - shows up); the model, being a pure
    function, is queried once per distinct case.  Compares impl and model outcome for each case and evaluates
    check_impl(fn, args, impl_outcome) -> None | dict(expected=..., observed=..., what=...)
    (the property's own statement over the implementation).
    model_args(fn, args) maps implementation arguments to the model's arguments."""
    from harness import core

    def mline(fn, args):
        return core.model_line(fn, model_args(fn, args) if model_args else args)

    all_lines = [mline(fn, args) for fn, args in cases]
    uniq_lines = list(dict.fromkeys(all_lines))
    mres = dict(zip(uniq_lines, [core.parse_model(l) for l in core.run_model(uniq_lines)]))
    diffs, viol, dist = [], [], {}
    samples = []
    seen = set()
    nontriv = 0
    for (fn, args), line in zip(cases, all_lines):
        m = mres[line]
        i = core.impl_call(fn, args)
        key = fn + ":" + (i[0] if i[0] == "OK" else i[1])
        dist[key] = dist.get(key, 0) + 1
        first = line not in seen
        seen.add(line)
        if first and (nontrivial is None or nontrivial(fn, args, i)):
            nontriv += 1
        if i != m:
            diffs.append({"fn": fn, "args": [core.show(a) for a in args], "impl": list(i), "model": list(m),
                          "repeat_of_earlier_call": not first})
        if check_impl:
            v = check_impl(fn, args, i)
            if v:
                v = dict(v)
                v["input"] = {"fn": fn, "args": [core.show(a) for a in args], "types": [arg_type(a) for a in args]}
                if not first:
                    v["note"] = "this call repeats an earlier call of the same run (history dependent?)"
                viol.append(v)
        if len(samples) < extra_samples or (i[0] == "ERR" and len(samples) < 2 * extra_samples):
            samples.append({"request": line, "impl": list(i), "model": list(m)})
    # second pass in REVERSE order in the same process: a deterministic function must give the same answers whatever
    # ran before it (order-dependent state - e.g. a table filled by the first key seen - shows up here)
    redo = 0
    for (fn, args), line in reversed(list(zip(cases, all_lines))):
        if redo >= 4000:
            break
        redo += 1
        i = core.impl_call(fn, args)
        if i != mres[line] and not any(d.get("args") == [core.show(a) for a in args] and d.get("fn") == fn for d in diffs):
            diffs.append({"fn": fn, "args": [core.show(a) for a in args], "impl": list(i), "model": list(mres[line]),
                          "pass": "second pass, reverse order"})
            if check_impl:
                v = check_impl(fn, args, i)
                if v:
                    v = dict(v)
                    v["input"] = {"fn": fn, "args": [core.show(a) for a in args]}
                    v["note"] = "failed in the second pass (reverse order) of the same run: depends on what ran before"
                    viol.append(v)
    # third pass: the byte-string arguments carried by bytearray objects (the model is carrier-agnostic; on the pinned
    # tree every function gives the same outcome for bytes and bytearray)
    import random as _random
    import sys as _sys
    import threading as _threading
    pick = _random.Random(len(cases))
    uniq = list(dict.fromkeys(zip([c[0] for c in cases], [c[1] for c in cases], all_lines)))
    with_bytes = [u for u in uniq if any(isinstance(a, (bytes, str)) for a in u[1])]
    carrier = 0
    for fn, args, line in (with_bytes if len(with_bytes) <= 1500 else pick.sample(with_bytes, 1500)):
        a2 = tuple(bytearray(a) if isinstance(a, bytes) else (_Str(a) if type(a) is str else (_Int(a) if type(a) is int else a)) for a in args)
        # a memoryview over a slice of a LARGER buffer: where the function accepts the view at all, only the viewed bytes count
        if any(isinstance(a, bytes) and a for a in args):
            a3 = tuple(memoryview(b"\xa5" * 16 + a + b"\x5a" * 16)[16:16 + len(a)] if isinstance(a, bytes) else a for a in args)
            try:
                raw3 = (core.FUNCS[fn] if isinstance(fn, str) else fn)(*a3)
                i3 = ("OK", core.show(raw3))
            except Exception:  # noqa: BLE001
                i3 = None            # views are not accepted everywhere on the pinned tree either: only values are compared
            if i3 is not None and mres[line][0] == "OK" and i3 != mres[line]:
                diffs.append({"fn": fn, "args": [core.show(a) for a in args], "impl": list(i3), "model": list(mres[line]),
                              "pass": "byte strings passed as memoryview slices of a larger buffer"})
                if check_impl:
                    v = check_impl(fn, args, i3)
                    if v:
                        v = dict(v)
                        v["input"] = {"fn": fn, "args": [core.show(a) for a in args]}
                        v["note"] = "byte-string arguments passed as memoryview slices of a larger buffer"
                        viol.append(v)
        try:
            raw = (core.FUNCS[fn] if isinstance(fn, str) else fn)(*a2)
            i = ("OK", core.show(raw))
            if any(raw is a for a in a2 if isinstance(a, bytearray)):
                # informational only: the properties do not promise a fresh object (the pinned pad_iso_1 returns an aligned
                # message object itself), so this is recorded in the evidence, never reported
                dist["info:result_is_the_argument_object:" + str(fn)] = dist.get("info:result_is_the_argument_object:" + str(fn), 0) + 1
        except Exception as e:  # noqa: BLE001
            i = ("ERR", core.bucket(e))
        carrier += 1
        if any(bytes(x) != y for x, y in zip(a2, args) if isinstance(y, bytes)):
            viol.append({"what": "call modified a bytearray argument", "expected": [core.show(a) for a in args],
                         "observed": [core.show(bytes(a) if isinstance(a, bytearray) else a) for a in a2],
                         "input": {"fn": fn, "args": [core.show(a) for a in args], "types": [arg_type(a) for a in a2]}})
        if i != mres[line]:
            diffs.append({"fn": fn, "args": [core.show(a) for a in args], "impl": list(i), "model": list(mres[line]),
                          "pass": "byte strings passed as bytearray"})
            if check_impl:
                v = check_impl(fn, args, i)
                if v:
                    v = dict(v)
                    v["input"] = {"fn": fn, "args": [core.show(a) for a in args], "types": [arg_type(a) for a in a2]}
                    v["note"] = "byte-string arguments passed as bytearray objects"
                    viol.append(v)
    # call-style pass: the same call spelled differently (keywords, documented defaults omitted)
    styled = 0
    nst = 0
    for fn, args, line in (uniq if len(uniq) <= 1200 else pick.sample(uniq, 1200)):
        if not isinstance(fn, str) or fn not in core.FUNCS:
            continue
        try:
            styles = core.call_styles(fn, args)
        except Exception as e:  # noqa: BLE001
            styles = []
            diffs.append({"fn": fn, "pass": "call styles", "error": "signature not inspectable: " + repr(e)[:200]})
        for label, thunk in styles:
            try:
                i = ("OK", core.show(thunk()))
            except Exception as e:  # noqa: BLE001
                i = ("ERR", core.bucket(e))
            styled += 1
            if i != mres[line]:
                nst += 1
                if nst <= 10:
                    diffs.append({"fn": fn, "args": [core.show(a) for a in args], "impl": list(i), "model": list(mres[line]), "pass": "call style: " + label})
                    if check_impl:
                        v = check_impl(fn, args, i)
                        if v:
                            v = dict(v)
                            v["input"] = {"fn": fn, "args": [core.show(a) for a in args]}
                            v["note"] = "only when the call is written as: " + label
                            viol.append(v)
    dist["pass:call_styles"] = styled
    # logging pass: the host application has DEBUG logging switched on for every logger (diagnostics must not change results)
    import logging as _logging
    root = _logging.getLogger()
    old_level, old_disable = root.level, _logging.root.manager.disable
    sink = _logging.NullHandler()
    root.addHandler(sink)
    root.setLevel(_logging.DEBUG)
    _logging.disable(_logging.NOTSET)
    touched = []
    for name in list(_logging.root.manager.loggerDict):
        lg = _logging.getLogger(name)
        if name.startswith("psec"):
            touched.append((lg, lg.level))
            lg.setLevel(_logging.DEBUG)
    nlog = 0
    try:
        for fn, args, line in (uniq if len(uniq) <= 800 else pick.sample(uniq, 800)):
            i = core.impl_call(fn, args)
            nlog += 1
            if i != mres[line]:
                diffs.append({"fn": fn, "args": [core.show(a) for a in args], "impl": list(i), "model": list(mres[line]), "pass": "DEBUG logging enabled"})
                if check_impl:
                    v = check_impl(fn, args, i)
                    if v:
                        v = dict(v)
                        v["input"] = {"fn": fn, "args": [core.show(a) for a in args]}
                        v["note"] = "only when DEBUG logging is enabled in the host application (logging.getLogger().setLevel(logging.DEBUG))"
                        viol.append(v)
                if len(diffs) > 40:
                    break
    finally:
        root.setLevel(old_level)
        root.removeHandler(sink)
        _logging.disable(old_disable)
        for lg, lv in touched:
            lg.setLevel(lv)
    dist["pass:debug_logging"] = nlog
    # fourth pass: the same calls executed by 8 threads in shuffled order at a minimal switch interval; every function
    # compared here is deterministic, so each result must still be the model's
    work = uniq if len(uniq) <= 2500 else pick.sample(uniq, 2500)
    work = work * (2 if len(work) < 1200 else 1)
    pick.shuffle(work)
    results = [None] * len(work)

    def runner(k):
        for j in range(k, len(work), 8):
            results[j] = core.impl_call(work[j][0], work[j][1])

    old_si = _sys.getswitchinterval()
    _sys.setswitchinterval(1e-6)
    try:
        ths = [_threading.Thread(target=runner, args=(k,)) for k in range(8)]
        for t_ in ths:
            t_.start()
        for t_ in ths:
            t_.join()
    finally:
        _sys.setswitchinterval(old_si)
    tdiff = 0
    for (fn, args, line), i in zip(work, results):
        if i != mres[line]:
            tdiff += 1
            if tdiff <= 20:
                diffs.append({"fn": fn, "args": [core.show(a) for a in args], "impl": list(i) if i else None, "model": list(mres[line]),
                              "pass": "8 threads, shuffled"})
                if check_impl and i:
                    v = check_impl(fn, args, i)
                    if v:
                        v = dict(v)
                        v["input"] = {"fn": fn, "args": [core.show(a) for a in args]}
                        v["note"] = "failed when the run's calls were executed concurrently by 8 threads (passes single-threaded?)"
                        viol.append(v)
    # fifth pass: the same calls in an interpreter that claims to be big-endian (harness/bigendian.py): nothing may depend
    # on the host byte order - except tools.xor with a mask shorter than the data, whose pinned behaviour does (Appendix A)
    import pickle as _pickle
    import subprocess as _subprocess
    import tempfile as _tempfile
    be = [u for u in uniq if not (u[0] == "xor" and len(u[1][1]) < len(u[1][0]))]
    be = be if len(be) <= 1200 else pick.sample(be, 1200)
    try:
        with _tempfile.TemporaryDirectory() as td:
            _pickle.dump([(fn, args) for fn, args, _ in be], open(os.path.join(td, "in"), "wb"))
            _subprocess.run([_sys.executable, "-W", "ignore", os.path.join(VERIF, "harness", "bigendian.py"), os.path.join(td, "in"),
                             os.path.join(td, "out")], check=True, capture_output=True, timeout=600)
            be_out = _pickle.load(open(os.path.join(td, "out"), "rb"))
    except Exception as e:  # noqa: BLE001
        be_out = None
        diffs.append({"pass": "pretended big-endian host", "error": repr(e)[:300]})
    if be_out is not None:
        nbe = 0
        for (fn, args, line), i in zip(be, be_out):
            if i != mres[line]:
                nbe += 1
                if nbe <= 10:
                    diffs.append({"fn": fn, "args": [core.show(a) for a in args], "impl": list(i), "model": list(mres[line]),
                                  "pass": "interpreter with sys.byteorder = 'big'"})
                    if check_impl:
                        v = check_impl(fn, args, i)
                        if v:
                            v = dict(v)
                            v["input"] = {"fn": fn, "args": [core.show(a) for a in args]}
                            v["note"] = "only on a big-endian host (sys.byteorder == 'big'): python harness/bigendian.py"
                            viol.append(v)
        dist["pass:big_endian_host"] = len(be)
    # sixth pass: the same calls under `python -OO` (asserts and `if __debug__:` blocks compiled out, docstrings dropped)
    op = uniq if len(uniq) <= 1200 else pick.sample(uniq, 1200)
    try:
        with _tempfile.TemporaryDirectory() as td:
            _pickle.dump([(fn, args) for fn, args, _ in op], open(os.path.join(td, "in"), "wb"))
            _subprocess.run([_sys.executable, "-OO", "-W", "ignore", os.path.join(VERIF, "harness", "bigendian.py"), os.path.join(td, "in"),
                             os.path.join(td, "out"), "native"], check=True, capture_output=True, timeout=600)
            op_out = _pickle.load(open(os.path.join(td, "out"), "rb"))
    except Exception as e:  # noqa: BLE001
        op_out = None
        diffs.append({"pass": "python -OO", "error": repr(e)[:300]})
    if op_out is not None:
        nop = 0
        for (fn, args, line), i in zip(op, op_out):
            if i != mres[line]:
                nop += 1
                if nop <= 10:
                    diffs.append({"fn": fn, "args": [core.show(a) for a in args], "impl": list(i), "model": list(mres[line]), "pass": "python -OO"})
                    if check_impl:
                        v = check_impl(fn, args, i)
                        if v:
                            v = dict(v)
                            v["input"] = {"fn": fn, "args": [core.show(a) for a in args]}
                            v["note"] = "only when the interpreter runs with -O / -OO (assert and __debug__ blocks removed)"
                            viol.append(v)
        dist["pass:python_OO"] = len(op)
    dist["pass:bytearray_carrier"] = carrier
    dist["pass:threads8"] = len(work)
    return {"evaluations": len(cases) + redo + carrier + len(work), "distinct_nontrivial": nontriv, "rule": rule, "samples": samples,
            "distribution": dist, "diffs": diffs, "violations": viol}


def with_history(rng, cases, variants, fraction=0.25, limit=400):
    """Interleave neighbours: for a sample of base cases (fn, args) emit base, a variant differing in ONE
    argument, base again, ... so that any state kept between calls (keyed on part of the arguments) is
    exercised.  variants(fn, args, i) -> list of replacement values for argument i (valid and invalid)."""
    out = list(cases)
    picked = [c for c in cases if rng.random() < fraction][:limit]
    # ... and, whatever the sample holds, several base cases of EVERY function in the run (a memo keyed on part of one
    # function's arguments is only exercised by neighbours of that function)
    by_fn = {}
    for c in cases:
        by_fn.setdefault(c[0], []).append(c)
    for fn, cs in by_fn.items():
        picked += rng.sample(cs, min(len(cs), 6))
    for fn, args in picked:
        seq = [(fn, args)]
        for i in range(len(args)):
            for v in variants(fn, args, i)[:7]:
                a2 = tuple(v if j == i else x for j, x in enumerate(args))
                seq += [(fn, a2), (fn, args)]
        out += seq
    return out


def inplace_history(res, rng, cases, check_impl, limit=24):
    """For a sample of cases: pass the FIRST byte-string argument as ONE bytearray object that the caller overwrites
    in place between consecutive calls of the same function (no other call in between).  A memo that keeps the
    caller's object, or a cipher context cached by object identity, shows up as a wrong result on the later call."""
    from harness import core

    picked = [c for c in cases if any(isinstance(a, (bytes, bytearray)) and len(a) > 0 for a in c[1])]
    rng.shuffle(picked)
    for fn, args in picked[:limit]:
        idx = next(i for i, a in enumerate(args) if isinstance(a, (bytes, bytearray)) and len(a) > 0)
        buf = bytearray(args[idx])
        for step in range(3):
            cur = tuple(buf if i == idx else a for i, a in enumerate(args))
            out = core.impl_call(fn, cur)
            frozen = tuple(bytes(a) if isinstance(a, bytearray) else a for a in cur)
            res["evaluations"] = res.get("evaluations", 0) + 1
            if bytes(buf) != frozen[idx]:
                res["violations"].append({"what": "call modified its bytearray argument", "expected": core.show(frozen[idx]),
                                          "observed": core.show(bytes(buf)), "input": {"fn": fn, "args": [core.show(a) for a in frozen]}})
            v = check_impl(fn, frozen, out)
            if v:
                v = dict(v)
                v["input"] = {"fn": fn, "args": [core.show(a) for a in frozen],
                              "note": "argument %d passed as ONE bytearray overwritten in place between calls (call %d)" % (idx, step + 1)}
                res["violations"].append(v)
            buf[:] = rng.randbytes(len(buf))
    res.setdefault("distribution", {})["inplace_mutated_buffer_sequences"] = min(limit, len(picked))


def merge_results(*rs):
    out = {"evaluations": 0, "distinct_nontrivial": 0, "rule": "", "samples": [], "distribution": {},
           "diffs": [], "violations": []}
    for r in rs:
        out["evaluations"] += r.get("evaluations", 0)
        out["distinct_nontrivial"] += r.get("distinct_nontrivial", 0)
        out["rule"] = (out["rule"] + " | " + r.get("rule", "")).strip(" |")
        out["samples"] += r.get("samples", [])[:4]
        for k, v in r.get("distribution", {}).items():
            out["distribution"][k] = out["distribution"].get(k, 0) + v
        out["diffs"] += r.get("diffs", [])
        out["violations"] += r.get("violations", [])
        for k in ("broken", "not_covered"):
            if r.get(k):
                out[k] = out.get(k, []) + r[k]
    return out
