"""Core of the correspondence harness: runs the real psec (from /repo's working
tree) and the extracted Coq model on the same inputs and returns both results
in one canonical text form.

value form : bytes / str -> comma separated decimals ("-" when empty)
outcome    : ("OK", text) | ("ERR", bucket)
buckets    : PsecError (tr31.HeaderError / KeyBlockError), ValueError (exactly
             that class), Other:<type name> (anything else, including
             subclasses of ValueError such as UnicodeEncodeError)
"""
import os
import subprocess
import sys
import warnings

warnings.simplefilter("ignore")

VERIF = os.path.dirname(os.path.dirname(os.path.abspath(__file__)))
REPO = os.environ.get("PSEC_VERIF_REPO", "/repo")
if REPO not in sys.path:
    sys.path.insert(0, REPO)
# never import a psec installed elsewhere
for _m in [m for m in sys.modules if m == "psec" or m.startswith("psec.")]:
    del sys.modules[_m]
assert sys.byteorder == "little" or os.environ.get("VERIF_PRETEND_BIG_ENDIAN"), "the model of tools.xor assumes a little-endian host"

import psec  # noqa: E402
from psec import aes, cvv, des, mac, pin, pinblock, tools, tr31  # noqa: E402

assert os.path.realpath(os.path.dirname(psec.__file__)) == os.path.realpath(
    os.path.join(REPO, "psec")
), "psec was not imported from " + REPO

DRIVER = os.path.join(VERIF, "ocaml", "driver")
NPROC = int(os.environ.get("VERIF_JOBS", "16"))


# ---------------------------------------------------------------- encoding
def show(v):
    if isinstance(v, (bytes, bytearray)):
        return ",".join(str(b) for b in v) if len(v) else "-"
    if isinstance(v, str):
        return ",".join(str(ord(c)) for c in v) if len(v) else "-"
    if v is None:
        return "N"
    if isinstance(v, bool):
        return "1" if v else "0"
    if isinstance(v, int):
        return str(v)
    if isinstance(v, (list, tuple)):
        return ",".join(str(int(x)) for x in v) if len(v) else "-"
    raise TypeError(type(v))


def unshow_bytes(t):
    return b"" if t == "-" else bytes(int(x) for x in t.split(","))


def unshow_str(t):
    return "" if t == "-" else "".join(chr(int(x)) for x in t.split(","))


def bucket(e):
    if isinstance(e, (tr31.HeaderError, tr31.KeyBlockError)):
        return "PsecError"
    if type(e) is ValueError:
        return "ValueError"
    return "Other:" + type(e).__name__


def model_bucket(name):
    if name in ("HeaderError", "KeyBlockError"):
        return "PsecError"
    if name == "ValueError":
        return "ValueError"
    return "Other:" + name.split(":", 1)[-1]


# ---------------------------------------------------------------- model side
def run_model(lines, nproc=None):
    """Run request lines through the extracted model (sharded over processes).
    Returns the list of raw response lines in order."""
    if not lines:
        return []
    nproc = min(nproc or NPROC, max(1, len(lines) // 4))
    shards = [[] for _ in range(nproc)]
    for i, l in enumerate(lines):
        shards[i % nproc].append(l)
    procs = []
    for sh in shards:
        p = subprocess.Popen([DRIVER], stdin=subprocess.PIPE, stdout=subprocess.PIPE, text=True)
        procs.append(p)
    import threading

    outs = [None] * nproc

    def work(i):
        outs[i] = procs[i].communicate("\n".join(shards[i]) + "\n")[0].split("\n")

    ths = [threading.Thread(target=work, args=(i,)) for i in range(nproc)]
    for t in ths:
        t.start()
    for t in ths:
        t.join()
    res = [None] * len(lines)
    for s in range(nproc):
        for j in range(len(shards[s])):
            res[s + j * nproc] = outs[s][j] if j < len(outs[s]) else "BAD missing"
    return res


def parse_model(line):
    """raw response -> ("OK", text) | ("ERR", bucket) | ("BAD", text)"""
    if line.startswith("OK"):
        return ("OK", line[3:])
    if line.startswith("ERR "):
        return ("ERR", model_bucket(line[4:]))
    return ("BAD", line)


def model_line(fn, args):
    return fn + " " + " ".join(show(a) for a in args)


# ---------------------------------------------------------------- impl side
def _cbc_mac(key, data, padding, length, is_aes):
    return mac.generate_cbc_mac(
        key, data, padding, length, mac.Algorithm.AES if is_aes else mac.Algorithm.DES
    )


FUNCS = {
    "xor": tools.xor,
    "odd_parity": tools.odd_parity,
    "apply_key_variant": des.apply_key_variant,
    "adjust_key_parity": des.adjust_key_parity,
    "generate_kcv": des.generate_kcv,
    "encrypt_tdes_cbc": des.encrypt_tdes_cbc,
    "decrypt_tdes_cbc": des.decrypt_tdes_cbc,
    "encrypt_tdes_ecb": des.encrypt_tdes_ecb,
    "decrypt_tdes_ecb": des.decrypt_tdes_ecb,
    "encrypt_aes_cbc": aes.encrypt_aes_cbc,
    "decrypt_aes_cbc": aes.decrypt_aes_cbc,
    "encrypt_aes_ecb": aes.encrypt_aes_ecb,
    "decrypt_aes_ecb": aes.decrypt_aes_ecb,
    "pad_iso_1": mac.pad_iso_1,
    "pad_iso_2": mac.pad_iso_2,
    "pad_iso_3": mac.pad_iso_3,
    "generate_cbc_mac": _cbc_mac,
    "generate_retail_mac": mac.generate_retail_mac,
    "generate_cvv": cvv.generate_cvv,
    "generate_ibm3624_pin": pin.generate_ibm3624_pin,
    "generate_ibm3624_offset": pin.generate_ibm3624_offset,
    "generate_visa_pvv": pin.generate_visa_pvv,
    "encode_pinblock_iso_0": pinblock.encode_pinblock_iso_0,
    "encode_pinblock_iso_2": pinblock.encode_pinblock_iso_2,
    "encode_pan_field_iso_4": pinblock.encode_pan_field_iso_4,
    "encode_pinblock_iso_3": pinblock.encode_pinblock_iso_3,       # randomised: implementation side only
    "encode_pin_field_iso_4": pinblock.encode_pin_field_iso_4,
    "encipher_pinblock_iso_4": pinblock.encipher_pinblock_iso_4,
    "decode_pinblock_iso_0": pinblock.decode_pinblock_iso_0,
    "decode_pinblock_iso_2": pinblock.decode_pinblock_iso_2,
    "decode_pinblock_iso_3": pinblock.decode_pinblock_iso_3,
    "decode_pin_field_iso_4": pinblock.decode_pin_field_iso_4,
    "decipher_pinblock_iso_4": pinblock.decipher_pinblock_iso_4,
}


def real_call(fn, args):
    """the psec function behind a harness function name and the argument tuple in ITS signature"""
    if fn == "generate_cbc_mac":
        key, data, padding, length, is_aes = args
        return mac.generate_cbc_mac, (key, data, padding, length, mac.Algorithm.AES if is_aes else mac.Algorithm.DES)
    return FUNCS[fn], tuple(args)


def call_styles(fn, args):
    """other spellings of the same call that the documented signature makes equivalent: arguments by keyword (all / the
    last one / all but the first), trailing arguments that equal their documented default left out or given as None.
    -> [(label, thunk)]"""
    import inspect
    f, ra = real_call(fn, args)
    names = list(inspect.signature(f).parameters)
    n = len(ra)
    out = []
    if len(names) >= n:
        out.append(("all arguments by keyword", lambda: f(**dict(zip(names, ra)))))
        if n >= 2:
            out.append(("last argument by keyword", lambda: f(*ra[:-1], **{names[n - 1]: ra[-1]})))
            out.append(("all but the first by keyword", lambda: f(ra[0], **dict(zip(names[1:], ra[1:])))))
    if fn == "generate_kcv" and ra[1] == 2:
        out.append(("default length omitted", lambda: f(ra[0])))
    if fn in ("pad_iso_1", "pad_iso_2", "pad_iso_3") and ra[1] == 8:
        out.append(("default block size omitted", lambda: f(ra[0])))
        out.append(("block size None", lambda: f(ra[0], None)))
    if fn == "generate_cbc_mac" and ra[4] == mac.Algorithm.DES:
        out.append(("default algorithm omitted", lambda: f(*ra[:4])))
        out.append(("algorithm None", lambda: f(*ra[:4], None)))
        if ra[3] is None:
            out.append(("default length and algorithm omitted", lambda: f(*ra[:3])))
    if fn == "generate_retail_mac" and ra[4] is None:
        out.append(("default length omitted", lambda: f(*ra[:4])))
    return out


def impl_call(fn, args):
    f = FUNCS[fn] if isinstance(fn, str) else fn
    try:
        v = f(*args)
    except Exception as e:  # noqa: BLE001
        return ("ERR", bucket(e))
    return ("OK", show(v))


def compare_calls(cases):
    """cases: list of (fn, args).  Returns (list of (case, impl, model)) where they differ,
    plus per-outcome statistics."""
    lines = [model_line(fn, args) for fn, args in cases]
    mres = [parse_model(l) for l in run_model(lines)]
    diffs = []
    stats = {}
    for (fn, args), m in zip(cases, mres):
        i = impl_call(fn, args)
        key = fn + ":" + (i[0] if i[0] == "OK" else i[1])
        stats[key] = stats.get(key, 0) + 1
        if i != m:
            diffs.append(((fn, args), i, m))
    return diffs, stats


# ---------------------------------------------------------------- TR-31 objects
FIELDS = ["version_id", "key_usage", "algorithm", "mode_of_use", "version_num", "exportability"]


def show_header(h):
    blocks = "/".join(show(k) + ":" + show(v) for k, v in h.blocks.items()) or "-"
    return "|".join(
        [show(h.version_id), show(h.key_usage), show(h.algorithm), show(h.mode_of_use),
         show(h.version_num), show(h.exportability), show(h.reserved), blocks]
    )


def op_token(op):
    k = op[0]
    if k == "M":
        return "K=" + show(bytes(op[1]))        # for the model an in-place overwrite of the KBPK buffer is a reassignment
    if k in ("L", "U", "D", "K"):
        return k + "=" + show(op[1])
    if k == "W":
        return "W=" + show(op[1]) + ";" + show(op[2]) + ";" + (show(op[3]) if len(op) > 3 else "-")
    if k == "F":
        return "F=" + str(op[1]) + ";" + show(op[2])
    if k == "B":
        return "B=" + show(op[1]) + ";" + show(op[2])
    return "S"


def set_block(blocks, bid, data, style=None):
    """insert an optional block through one of the equivalent MutableMapping entry points (chosen by a fixed
    function of the arguments): blocks[id] = data / update({id: data}) / update(**{id: data}) / update([(id, data)]) /
    setdefault (when absent).  On the pinned tree all of them run Blocks.__setitem__ and its validation."""
    if style is None:
        try:
            style = (len(data) + sum(ord(c) for c in bid)) % 5
        except TypeError:
            style = 0
    if style == 1:
        blocks.update({bid: data})
    elif style == 2 and isinstance(bid, str):
        blocks.update(**{bid: data})
    elif style == 3:
        blocks.update([(bid, data)])
    elif style == 4 and bid not in blocks:
        blocks.setdefault(bid, data)
    else:
        blocks[bid] = data


def del_block(blocks, bid):
    """del blocks[id] or blocks.pop(id): both raise KeyError when absent"""
    if (sum(ord(c) for c in bid) % 2) if isinstance(bid, str) else 0:
        blocks.pop(bid)
    else:
        del blocks[bid]


class _SeqTimeout(BaseException):
    """not an Exception: the per-operation handler must not swallow it"""


def impl_run_ops(kbpk, ops):
    """Execute an op list on one reused KeyBlock (wrap ops are ("W", key, mask):
    the real os.urandom is used).  Returns (header text, [outcome text])."""
    kb = tr31.KeyBlock(kbpk)
    outs = []
    cur = kbpk
    # a sequence that does not end within 60 s (an implementation waiting on a lock it left behind) is cut short
    import signal
    import threading
    timed = threading.current_thread() is threading.main_thread()
    if timed:
        def _cut(signum, frame):
            raise _SeqTimeout()
        old_handler = signal.signal(signal.SIGALRM, _cut)
        signal.setitimer(signal.ITIMER_REAL, 60.0)
    try:
        return _impl_run_ops_body(kb, cur, ops, outs)
    except _SeqTimeout:
        outs.append("err:Other:Timeout")
        return show_header(kb.header), outs
    finally:
        if timed:
            signal.setitimer(signal.ITIMER_REAL, 0)
            signal.signal(signal.SIGALRM, old_handler)


def _impl_run_ops_body(kb, cur, ops, outs):
    hdr_obj, blocks_obj = kb.header, kb.header.blocks
    for op in ops:
        k = op[0]
        if kb.header is not hdr_obj or kb.header.blocks is not blocks_obj:
            # load / unwrap / wrap work on the caller's Header and Blocks objects in place: a reference the caller holds
            # (b = kb.header.blocks) must keep showing the object's state
            outs.append("err:HEADER-OR-BLOCKS-OBJECT-REPLACED")
            return show_header(kb.header), outs
        if kb.kbpk != cur or type(kb.kbpk) is not type(cur):
            # no operation may rewrite the caller's key-block protection key (the model's st_kbpk only changes by K=)
            outs.append("err:KBPK-ATTRIBUTE-MODIFIED:" + show(bytes(kb.kbpk)))
            return show_header(kb.header), outs
        try:
            if k == "L":
                outs.append("nat:%d" % kb.header.load(op[1]))
            elif k == "U":
                outs.append("bytes:" + show(kb.unwrap(op[1])))
            elif k == "W":
                outs.append("str:" + show(kb.wrap(op[1], op[2])))
            elif k == "F":
                setattr(kb.header, FIELDS[op[1]], op[2])
                outs.append("none")
            elif k == "B":
                set_block(kb.header.blocks, op[1], op[2])
                outs.append("none")
            elif k == "D":
                del_block(kb.header.blocks, op[1])
                outs.append("none")
            elif k == "K":
                # a fresh object each time (the previous key object is released: an object id may be reused)
                hx = bytes(op[1]).hex()
                kb.kbpk = b""          # the previous key object is released first, so the new one may get its address
                kb.kbpk = bytes.fromhex(hx)       # (no temporary of the key's own size class in between)
                cur = kb.kbpk
                outs.append("none")
            elif k == "M":
                # the caller keeps the KBPK in ONE bytearray and overwrites it in place
                if isinstance(kb.kbpk, bytearray) and len(kb.kbpk) == len(op[1]):
                    kb.kbpk[:] = op[1]
                else:
                    kb.kbpk = bytearray(op[1])
                cur = kb.kbpk
                outs.append("none")
            else:
                outs.append("str:" + show(str(kb)))
        except Exception as e:  # noqa: BLE001
            outs.append("err:" + bucket(e))
    if kb.header is not hdr_obj or kb.header.blocks is not blocks_obj:
        outs.append("err:HEADER-OR-BLOCKS-OBJECT-REPLACED")
    return show_header(kb.header), outs


def recover_tapes(items):
    """items: list of (kbpk, key, key_block_text) for successful impl wraps.
    The wrap's os.urandom draw is recovered from the implementation's own output
    by the model's inverse (authenticated decryption): tape = clear[2+len(key):].
    Returns a list of bytes, or None where the model cannot open the block."""
    lines = ["unwrap_clear " + show(k) + " " + show(kb) for k, _, kb in items]
    res = []
    for (k, key, kb), line in zip(items, run_model(lines)):
        st, txt = parse_model(line)
        if st != "OK":
            res.append(None)
            continue
        clear = unshow_bytes(txt)
        res.append(clear[2 + len(key):])
    return res


def with_tapes(cases, impl_results):
    """cases: [(kbpk, ops)], impl_results: [(hdr, outs)].  Returns the op lists
    for the model, each wrap carrying the tape recovered from the impl output
    (an empty tape when the impl wrap failed or the block cannot be opened)."""
    items, where = [], []
    for ci, ((kbpk, ops), (_, outs)) in enumerate(zip(cases, impl_results)):
        for oi, (op, out) in enumerate(zip(ops, outs)):
            if op[0] in ("K", "M"):
                kbpk = bytes(op[1])
            if op[0] == "W" and out.startswith("str:"):
                items.append((kbpk, op[1], unshow_str(out[4:])))
                where.append((ci, oi))
    tapes = recover_tapes(items)
    tmap = dict(zip(where, tapes))
    res = []
    for ci, (kbpk, ops) in enumerate(cases):
        mops = []
        for oi, op in enumerate(ops):
            if op[0] == "W":
                t = tmap.get((ci, oi))
                mops.append(("W", op[1], op[2], t if t is not None else b""))
            else:
                mops.append(op)
        res.append((kbpk, mops))
    return res


def model_run_line(kbpk, ops):
    return "run " + show(kbpk) + " " + " ".join(op_token(o) for o in ops)


def parse_model_run(line):
    """-> (header text, [outcome text]) with error names bucketed"""
    if not line.startswith("OK "):
        return ("BAD", [line])
    parts = line[3:].split(" ")
    outs = []
    for o in parts[1:]:
        if o.startswith("err:"):
            outs.append("err:" + model_bucket(o[4:]))
        else:
            outs.append(o)
    return parts[0], outs
