"""Fail-closed Python-ast translator: psec source -> write-effect summaries as
Coq data (coq/Gen/Effects.v).  Every store, delete, in-place mutator call and
every call is classified by the OWNER of the object touched, with
flow-sensitive tracking of local rebinding.  Anything outside the handled
subset is emitted as OUnknown / ECallUnknown, which no policy accepts."""
import ast
import os
import sys

MODULES = ["tools", "des", "aes", "mac", "cvv", "pin", "pinblock", "tr31"]

PURE_BUILTINS = {
    "len", "int", "str", "bytes", "bytearray", "max", "min", "range", "isinstance", "frozenset", "set", "enumerate",
    "iter", "repr", "list", "dict", "tuple", "bool", "abs", "sum", "zip", "sorted", "reversed", "ord", "chr", "hex",
    "KeyError", "ValueError", "OverflowError", "TypeError", "IndexError", "Exception",
    # side-effect free builtins (none of them writes to an argument; `next`, `setattr`, `getattr`, `vars`, `globals`,
    # `exec`, `eval`, `open`, `print` are deliberately absent)
    "any", "all", "map", "filter", "divmod", "format", "bin", "oct", "round", "pow", "slice", "memoryview", "type",
    "callable", "hash", "ascii", "float", "complex", "object", "issubclass",
}
# methods of built-in values that do not mutate their receiver
PURE_METHODS = {
    "hex", "upper", "lower", "ljust", "rjust", "zfill", "encode", "decode", "to_bytes", "from_bytes", "join", "translate",
    "maketrans", "items", "keys", "values", "get", "issubset", "fromhex", "encryptor", "decryptor", "format", "startswith",
    "endswith", "strip", "split", "count", "index", "find", "isdigit", "copy", "auto",
    "replace", "rstrip", "lstrip", "isalnum", "isascii", "isdecimal", "isnumeric", "isalpha", "isupper", "islower",
    "casefold", "title", "center", "partition", "rpartition", "splitlines", "removeprefix", "removesuffix", "rsplit",
    "rfind", "rindex", "bit_length", "bit_count", "swapcase", "capitalize", "expandtabs", "isprintable", "isspace",
    "issuperset", "isdisjoint", "union", "intersection", "difference", "symmetric_difference",
    "match", "fullmatch", "search", "group", "groups", "tobytes", "tolist",
}
# methods of built-in values that mutate their receiver in place (a write to the receiver's owner)
INPLACE_METHODS = {"append", "extend", "insert", "remove", "pop", "popitem", "clear", "update", "setdefault", "sort",
                   "reverse", "add", "discard", "finalize", "update_into"}
# `bytes` is deliberately absent: callers may pass a bytearray where bytes is annotated, and `x += ...` on a
# bytearray parameter extends the caller's object in place
IMMUTABLE_ANN = {"int", "str", "bool", "float"}
EXTERNAL_PURE = {
    ("binascii", "a2b_hex"), ("algorithms", "TripleDES"), ("algorithms", "AES"), ("modes", "ECB"), ("modes", "CBC"),
    ("enum", "auto"), ("typing", "Optional"),
}
EXTERNAL_NAMES_PURE = {"_default_backend", "_Cipher"}
# OS-entropy draws (allowed only in the randomised encoders / wrap methods); the user-space `random` module is
# deliberately absent, so any use of it is an unknown call
ENTROPY = {("secrets", "choice"), ("secrets", "token_bytes"), ("secrets", "randbelow"), ("secrets", "randbits"),
           ("secrets", "token_hex"), ("name", "_urandom"), ("name", "urandom"), ("os", "urandom"), ("os", "getrandom")}


def ann_immutable(a):
    """annotation denotes an immutable value type (int, str, bytes, Optional[int] ...)"""
    if a is None:
        return False
    if isinstance(a, ast.Name):
        return a.id in IMMUTABLE_ANN
    if isinstance(a, ast.Subscript):
        base = a.value
        nm = base.attr if isinstance(base, ast.Attribute) else getattr(base, "id", "")
        if nm == "Optional":
            return ann_immutable(a.slice)
        if nm == "Union":
            elts = a.slice.elts if isinstance(a.slice, ast.Tuple) else [a.slice]
            return all(ann_immutable(e) for e in elts)
    if isinstance(a, ast.Constant) and a.value is None:
        return True
    return False


class Fn:
    def __init__(self, name):
        self.name = name
        self.effects = []

    def add(self, *e):
        self.effects.append(e)


class ModuleInfo:
    def __init__(self, mod, tree):
        self.mod = mod
        self.tree = tree
        self.imports = {}      # alias -> ("psec", module) | ("ext", name)
        self.functions = set()  # module-level function names
        self.classes = {}      # class -> set(method names)
        self.globals = set()
        for node in tree.body:
            if isinstance(node, ast.Import):
                for a in node.names:
                    self.imports[a.asname or a.name] = ("ext", a.name.split(".")[-1])
            elif isinstance(node, ast.ImportFrom):
                for a in node.names:
                    if node.module == "psec":
                        self.imports[a.asname or a.name] = ("psec", a.name)
                    else:
                        self.imports[a.asname or a.name] = ("extname", (node.module or "").split(".")[-1], a.name)
            elif isinstance(node, ast.FunctionDef):
                self.functions.add(node.name)
            elif isinstance(node, ast.ClassDef):
                self.classes[node.name] = {n.name for n in node.body if isinstance(n, ast.FunctionDef)}
            elif isinstance(node, (ast.Assign, ast.AnnAssign)):
                tgts = node.targets if isinstance(node, ast.Assign) else [node.target]
                for t in tgts:
                    if isinstance(t, ast.Name):
                        self.globals.add(t.id)


class Analyzer:
    def __init__(self, info, all_methods):
        self.info = info
        self.all_methods = all_methods   # every method name defined in a psec class
        self.out = []

    # -------------------------------------------------- expression ownership
    def own(self, e, env):
        if isinstance(e, ast.Name):
            if e.id in env:
                return env[e.id]
            if e.id in self.info.globals or e.id in self.info.functions or e.id in self.info.classes or e.id in self.info.imports:
                return ("module", e.id)
            if e.id in PURE_BUILTINS or e.id in ("True", "False", "None"):
                return ("fresh",)
            return ("unknown", "name " + e.id)
        if isinstance(e, ast.Attribute):
            o = self.own(e.value, env)
            return o
        if isinstance(e, ast.Subscript):
            return self.own(e.value, env)
        if isinstance(e, (ast.Call, ast.Constant, ast.BinOp, ast.UnaryOp, ast.BoolOp, ast.Compare, ast.JoinedStr, ast.ListComp,
                          ast.SetComp, ast.DictComp, ast.GeneratorExp, ast.List, ast.Tuple, ast.Dict, ast.Set, ast.IfExp,
                          ast.FormattedValue)):
            return ("fresh",)
        return ("unknown", type(e).__name__)

    @staticmethod
    def coq_owner(o):
        k = o[0]
        if k == "local":
            return "OLocal"
        if k == "fresh":
            return "OFresh"
        if k == "self":
            return "OSelf"
        if k == "param":
            return "(OParam %d)" % o[1]
        if k == "module":
            return '(OModule "%s")' % o[1]
        return '(OUnknown "%s")' % str(o[1:]).replace('"', "'")

    # -------------------------------------------------- statements
    def write_target(self, fn, t, env, rhs_owner, aug=False):
        if isinstance(t, ast.Name):
            if aug:
                cur = env.get(t.id)
                if cur is None:
                    fn.add("EWrite", ("unknown", "augassign to non-local " + t.id))
                elif cur[0] in ("param", "self", "module", "unknown"):
                    fn.add("EWrite", cur)      # in-place update of an object owned by someone else
                else:
                    fn.add("EWrite", ("local",))
            else:
                fn.add("EWrite", ("local",))
                env[t.id] = rhs_owner if rhs_owner[0] != "fresh" else ("fresh",)
        elif isinstance(t, (ast.Tuple, ast.List)):
            for x in t.elts:
                self.write_target(fn, x, env, ("fresh",) if rhs_owner[0] == "fresh" else rhs_owner, aug)
        elif isinstance(t, ast.Attribute):
            o = self.own(t.value, env)
            fn.add("EWrite", ("fresh",) if o[0] in ("fresh", "local") else o)
        elif isinstance(t, ast.Subscript):
            o = self.own(t.value, env)
            fn.add("EWrite", ("fresh",) if o[0] in ("fresh", "local") else o)
        elif isinstance(t, ast.Starred):
            self.write_target(fn, t.value, env, rhs_owner, aug)
        else:
            fn.add("EWrite", ("unknown", type(t).__name__))

    def stmts(self, fn, body, env, qual):
        for s in body:
            self.stmt(fn, s, env, qual)

    def stmt(self, fn, s, env, qual):
        if isinstance(s, ast.Assign):
            self.expr(fn, s.value, env)
            ro = self.value_owner(s.value, env)
            for t in s.targets:
                self.write_target(fn, t, env, ro)
        elif isinstance(s, ast.AnnAssign):
            if s.value is not None:
                self.expr(fn, s.value, env)
                self.write_target(fn, s.target, env, self.value_owner(s.value, env))
        elif isinstance(s, ast.AugAssign):
            self.expr(fn, s.value, env)
            self.write_target(fn, s.target, env, ("fresh",), aug=True)
        elif isinstance(s, ast.Delete):
            for t in s.targets:
                if isinstance(t, ast.Name):
                    fn.add("EWrite", ("local",))
                else:
                    self.write_target(fn, t, env, ("fresh",))
        elif isinstance(s, ast.Expr):
            self.expr(fn, s.value, env)
        elif isinstance(s, ast.Return):
            if s.value is not None:
                self.expr(fn, s.value, env)
        elif isinstance(s, ast.Raise):
            if s.exc is not None:
                self.expr(fn, s.exc, env)
            if s.cause is not None:
                self.expr(fn, s.cause, env)
        elif isinstance(s, ast.If):
            self.expr(fn, s.test, env)
            e1, e2 = dict(env), dict(env)
            self.stmts(fn, s.body, e1, qual)
            self.stmts(fn, s.orelse, e2, qual)
            self.merge(env, e1, e2)
        elif isinstance(s, ast.For):
            self.expr(fn, s.iter, env)
            self.write_target(fn, s.target, env, self.value_owner(s.iter, env))
            e1 = dict(env)
            self.stmts(fn, s.body, e1, qual)
            self.stmts(fn, s.body, e1, qual)      # second pass: rebinding reaches the loop head
            self.stmts(fn, s.orelse, e1, qual)
            self.merge(env, env.copy(), e1)
        elif isinstance(s, ast.While):
            self.expr(fn, s.test, env)
            e1 = dict(env)
            self.stmts(fn, s.body, e1, qual)
            self.stmts(fn, s.body, e1, qual)
            self.merge(env, env.copy(), e1)
        elif isinstance(s, ast.Try):
            e1 = dict(env)
            self.stmts(fn, s.body, e1, qual)
            envs = [e1]
            for h in s.handlers:
                eh = dict(env)
                if h.name:
                    eh[h.name] = ("fresh",)
                self.stmts(fn, h.body, eh, qual)
                envs.append(eh)
            eo = dict(e1)
            self.stmts(fn, s.orelse, eo, qual)
            envs.append(eo)
            for e in envs[1:]:
                self.merge(envs[0], dict(envs[0]), e)
            env.clear()
            env.update(envs[0])
            self.stmts(fn, s.finalbody, env, qual)
        elif isinstance(s, ast.With):
            for it in s.items:
                self.expr(fn, it.context_expr, env)
                if it.optional_vars is not None:
                    self.write_target(fn, it.optional_vars, env, ("fresh",))
            self.stmts(fn, s.body, env, qual)
        elif isinstance(s, (ast.Global, ast.Nonlocal)):
            for n in s.names:
                fn.add("EDeclGlobal", n)
                env[n] = ("module", n)
        elif isinstance(s, ast.FunctionDef):
            self.function(s, qual + "." + s.name, cls=None, outer_env=env)
            env[s.name] = ("func", [qual + "." + s.name])
        elif isinstance(s, (ast.Pass, ast.Break, ast.Continue, ast.Assert)):
            if isinstance(s, ast.Assert):
                self.expr(fn, s.test, env)
        else:
            fn.add("EWrite", ("unknown", "statement " + type(s).__name__))

    @staticmethod
    def merge(env, a, b):
        env.clear()
        for k in set(a) | set(b):
            va, vb = a.get(k), b.get(k)
            if va == vb:
                env[k] = va
            elif va is None or vb is None:
                env[k] = va or vb
            elif va[0] == "func" and vb[0] == "func":
                env[k] = ("func", sorted(set(va[1]) | set(vb[1])))
            else:
                # keep the more dangerous classification
                rank = {"fresh": 0, "local": 0, "func": 1, "self": 2, "param": 3, "module": 4, "unknown": 5}
                env[k] = va if rank[va[0]] >= rank[vb[0]] else vb

    def value_owner(self, e, env):
        """owner class of the VALUE an expression evaluates to (for aliasing through assignment)"""
        if isinstance(e, ast.Name):
            return self.own(e, env)
        if isinstance(e, ast.Attribute):
            # a function / table fetched from a psec module or from self: remember what it may call
            base = e.value
            if isinstance(base, ast.Name) and self.info.imports.get(base.id, ("", ""))[0] == "psec":
                return ("func", ["%s.%s" % (self.info.imports[base.id][1], e.attr)])
            if isinstance(base, ast.Name) and env.get(base.id, ("",))[0] == "self" and e.attr in self.all_methods:
                return ("func", ["selfmethod:" + e.attr])       # a bound method of self
            return self.own(e, env)
        if isinstance(e, ast.Subscript):
            base = e.value
            if isinstance(base, ast.Attribute) and isinstance(base.value, ast.Name) and env.get(base.value.id, ("",))[0] == "self":
                return ("func", ["table:" + base.attr])
            if isinstance(base, ast.Name) and base.id in self.info.globals:
                return ("func", ["table:" + base.id])
            return self.own(e, env)
        if isinstance(e, ast.Call) and isinstance(e.func, ast.Attribute) and e.func.attr in ("get", "pop", "setdefault", "popitem"):
            # an element handed out by a container keeps the container's owner
            o = self.own(e.func.value, env)
            return o if o[0] in ("self", "param", "module", "unknown") else ("fresh",)
        if isinstance(e, ast.IfExp):
            a, b = self.value_owner(e.body, env), self.value_owner(e.orelse, env)
            t = {}
            self.merge(t, {"x": a}, {"x": b})
            return t["x"]
        return ("fresh",)

    # -------------------------------------------------- expressions (calls)
    def expr(self, fn, e, env):
        for node in ast.walk(e):
            if isinstance(node, ast.Call):
                self.call(fn, node, env)
            elif isinstance(node, (ast.NamedExpr,)):
                fn.add("EWrite", ("unknown", "walrus"))
            elif isinstance(node, (ast.Lambda, ast.Await, ast.Yield, ast.YieldFrom)):
                fn.add("ECallUnknown", type(node).__name__)

    def call(self, fn, c, env):
        f = c.func
        if isinstance(f, ast.Name):
            v = env.get(f.id)
            if v is not None and v[0] == "func":
                for tgt in v[1]:
                    if tgt.startswith("selfmethod:"):
                        fn.add("ECallMethod", ("self",), tgt.split(":", 1)[1])
                    else:
                        fn.add("ECallPsec", tgt)
                return
            if v is not None:
                fn.add("ECallUnknown", "call of local value " + f.id)
                return
            if f.id in self.info.functions:
                fn.add("ECallPsec", "%s.%s" % (self.info.mod, f.id))
            elif f.id in self.info.classes:
                fn.add("ECallMethod", ("fresh",), "__init__")
            elif f.id in PURE_BUILTINS:
                fn.add("ECallPure", f.id)
            elif f.id in EXTERNAL_NAMES_PURE:
                fn.add("ECallPure", f.id)
            elif ("name", f.id) in ENTROPY:
                fn.add("ECallEntropy", f.id)
            elif self.info.imports.get(f.id, ("",))[0] == "extname":
                _, module, name = self.info.imports[f.id]        # from module import name as f.id
                if (module, name) in EXTERNAL_PURE or name in ("default_backend", "Cipher"):
                    fn.add("ECallPure", "%s.%s" % (module, name))
                elif (module, name) in ENTROPY:
                    fn.add("ECallEntropy", "%s.%s" % (module, name))
                else:
                    fn.add("ECallUnknown", "%s.%s" % (module, name))
            else:
                fn.add("ECallUnknown", f.id)
            return
        if isinstance(f, ast.Attribute):
            base = f.value
            if isinstance(base, ast.Name) and base.id not in env:
                imp = self.info.imports.get(base.id)
                if imp and imp[0] == "psec":
                    fn.add("ECallPsec", "%s.%s" % (imp[1], f.attr))
                    return
                if imp and imp[0] == "extname":      # from package import module as alias; alias.f(...)
                    imp = ("ext", imp[2])
                if imp and imp[0] == "ext":
                    key = (imp[1].lstrip("_"), f.attr)
                    if key in EXTERNAL_PURE:
                        fn.add("ECallPure", "%s.%s" % key)
                    elif key in ENTROPY:
                        fn.add("ECallEntropy", "%s.%s" % key)
                    else:
                        fn.add("ECallUnknown", "%s.%s" % key)
                    return
                if base.id in ("int", "str", "bytes", "bytearray", "dict", "list"):
                    if f.attr in PURE_METHODS:
                        fn.add("ECallPure", "%s.%s" % (base.id, f.attr))
                    else:
                        fn.add("ECallUnknown", "%s.%s" % (base.id, f.attr))
                    return
                if base.id in self.info.classes or base.id in self.info.globals:
                    recv = ("module", base.id)
                else:
                    fn.add("ECallUnknown", "%s.%s" % (base.id, f.attr))
                    return
            else:
                recv = self.own(base, env)
                if isinstance(base, ast.Attribute) and isinstance(base.value, ast.Name):
                    imp = self.info.imports.get(base.value.id)
                    if imp and imp[0] == "psec":       # e.g. _mac.Algorithm.DES-style access
                        recv = ("module", imp[1])
            m = f.attr
            if recv[0] == "func":
                fn.add("ECallUnknown", "method of function value")
            elif m in self.all_methods:
                fn.add("ECallMethod", ("fresh",) if recv[0] == "local" else recv, m)
            elif m in INPLACE_METHODS:
                fn.add("EWrite", ("fresh",) if recv[0] in ("fresh", "local") else recv)
            elif m in PURE_METHODS:
                fn.add("ECallPure", "method " + m)
            else:
                fn.add("ECallUnknown", "method " + m)
            return
        if isinstance(f, ast.Subscript):
            # call through a dispatch table
            base = f.value
            if isinstance(base, ast.Name) and base.id in self.info.globals:
                fn.add("ECallPsec", "table:" + base.id)
            elif isinstance(base, ast.Attribute):
                fn.add("ECallPsec", "table:" + base.attr)
            else:
                fn.add("ECallUnknown", "call through subscript")
            return
        fn.add("ECallUnknown", "call of " + type(f).__name__)

    # -------------------------------------------------- functions
    def function(self, node, qual, cls, outer_env=None):
        name = qual
        for d in node.decorator_list:
            if isinstance(d, ast.Attribute) and d.attr == "setter":
                name = qual + ".setter"
        fn = Fn(name)
        for d in node.decorator_list:
            ok = (isinstance(d, ast.Name) and d.id in ("property", "staticmethod", "classmethod")) or \
                 (isinstance(d, ast.Attribute) and d.attr in ("setter", "getter"))
            if not ok:
                fn.add("ECallUnknown", "decorator " + ast.unparse(d))
        env = {}
        if outer_env:
            # closure: outer locals are readable; writing them needs `nonlocal`
            for k, v in outer_env.items():
                env[k] = v if v[0] in ("func", "module") else ("unknown", "outer variable " + k) if False else v
        args = node.args
        allargs = list(args.posonlyargs) + list(args.args) + list(args.kwonlyargs)
        idx = 0
        for i, a in enumerate(allargs):
            if cls is not None and i == 0 and a.arg == "self":
                env[a.arg] = ("self",)
                continue
            env[a.arg] = ("fresh",) if ann_immutable(a.annotation) else ("param", idx)
            idx += 1
        if args.vararg or args.kwarg:
            fn.add("EWrite", ("unknown", "*args/**kwargs"))
        for d in list(args.defaults) + [x for x in args.kw_defaults if x is not None]:
            if not isinstance(d, ast.Constant):
                fn.add("EWrite", ("unknown", "non-constant default argument (shared mutable default)"))
        self.stmts(fn, node.body, env, qual)
        self.out.append(fn)


def analyse(repo):
    infos = {}
    for m in MODULES:
        path = os.path.join(repo, "psec", m + ".py")
        infos[m] = ModuleInfo(m, ast.parse(open(path).read(), path))
    all_methods = set()
    for info in infos.values():
        for ms in info.classes.values():
            all_methods |= ms
    GENERATOR_FUNCTIONS.clear()
    for info in infos.values():
        for node in ast.walk(info.tree):
            if isinstance(node, ast.FunctionDef) and any(isinstance(x, (ast.Yield, ast.YieldFrom)) for x in ast.walk(node)):
                GENERATOR_FUNCTIONS.add(node.name)
    fns = []
    for m, info in infos.items():
        an = Analyzer(info, all_methods)
        for node in info.tree.body:
            if isinstance(node, ast.FunctionDef):
                an.function(node, "%s.%s" % (m, node.name), cls=None)
            elif isinstance(node, ast.ClassDef):
                for n in node.body:
                    if isinstance(n, ast.FunctionDef):
                        an.function(n, "%s.%s.%s" % (m, node.name, n.name), cls=node.name)
                    elif isinstance(n, (ast.Assign, ast.AnnAssign, ast.Expr, ast.Pass)):
                        # class-level tables: built once at import (one-shot iterators are state, see below)
                        if one_shot_iterator(getattr(n, "value", None)):
                            f = Fn("%s.%s.<class body>" % (m, node.name))
                            f.add("EWrite", ("unknown", "class-level one-shot iterator (consumed by its first use)"))
                            an.out.append(f)
                    else:
                        f = Fn("%s.%s.<class body>" % (m, node.name))
                        f.add("EWrite", ("unknown", "class-level " + type(n).__name__))
                        an.out.append(f)
            elif isinstance(node, (ast.Import, ast.ImportFrom, ast.Assign, ast.AnnAssign, ast.Expr)):
                # import-time initialisation of module-level tables: fine, unless the value is a one-shot iterator
                # (zip / map / filter / iter / generator ...), which every use consumes - shared mutable state
                if one_shot_iterator(getattr(node, "value", None)):
                    f = Fn("%s.<module body>" % m)
                    f.add("EWrite", ("unknown", "module-level one-shot iterator (consumed by its first use)"))
                    an.out.append(f)
            else:
                f = Fn("%s.<module body>" % m)
                f.add("EWrite", ("unknown", "module-level " + type(node).__name__))
                an.out.append(f)
        fns += an.out
        fns += table_summaries(m, info)
    return fns


ITERATOR_MAKERS = {"zip", "map", "filter", "iter", "enumerate", "reversed", "open", "chain", "cycle", "count", "repeat", "islice"}


GENERATOR_FUNCTIONS = set()     # names of psec functions that contain `yield` (filled by analyse)


def one_shot_iterator(v):
    """value expression that evaluates to an iterator object (stateful: consumed by use)"""
    if v is None:
        return False
    if isinstance(v, ast.GeneratorExp):
        return True
    if isinstance(v, ast.Call):
        f = v.func
        name = f.id if isinstance(f, ast.Name) else (f.attr if isinstance(f, ast.Attribute) else None)
        return name in ITERATOR_MAKERS or name in GENERATOR_FUNCTIONS
    return False


def table_summaries(m, info):
    """dispatch tables (module- or class-level dicts of functions, filled by a dict literal or by TABLE[k] = f at
    import time) as pseudo-summaries named "table:<name>" whose effects are calls of their members, so that call
    closures (Proofs/EffectClosure.v) follow calls made through a table.  A member that is not a plain function
    name is emitted as an unknown call (fail-closed)."""
    tables = {}

    def member(v, cls):
        if isinstance(v, ast.Name):
            return ("ECallPsec", "%s.%s.%s" % (m, cls, v.id) if cls else "%s.%s" % (m, v.id))
        if isinstance(v, ast.Attribute) and isinstance(v.value, ast.Name) and info.imports.get(v.value.id, ("", ""))[0] == "psec":
            return ("ECallPsec", "%s.%s" % (info.imports[v.value.id][1], v.attr))
        return ("ECallUnknown", "table member " + type(v).__name__)

    def scan(body, cls):
        for n in body:
            tgt = val = None
            if isinstance(n, ast.AnnAssign) and isinstance(n.target, ast.Name):
                tgt, val = n.target.id, n.value
            elif isinstance(n, ast.Assign) and len(n.targets) == 1:
                t0 = n.targets[0]
                if isinstance(t0, ast.Name):
                    tgt, val = t0.id, n.value
                elif isinstance(t0, ast.Subscript) and isinstance(t0.value, ast.Name) and t0.value.id in tables:
                    tables[t0.value.id].append(member(n.value, cls))
                    continue
            if tgt is not None and isinstance(val, ast.Dict) and (not val.values or all(
                    isinstance(v, (ast.Name, ast.Attribute, ast.Lambda, ast.Call)) for v in val.values)):
                if not val.values or any(isinstance(v, (ast.Name, ast.Lambda)) for v in val.values):
                    tables.setdefault(tgt, [])
                    tables[tgt] += [member(v, cls) for v in val.values]

    scan(info.tree.body, None)
    for node in info.tree.body:
        if isinstance(node, ast.ClassDef):
            scan(node.body, node.name)
    out = []
    for name, members in tables.items():
        if not members:
            continue
        f = Fn("table:" + name)
        for e in members:
            f.add(*e)
        out.append(f)
    return out


def to_coq(fns):
    def eff(e):
        if e[0] == "EWrite":
            return "EWrite %s" % Analyzer.coq_owner(e[1])
        if e[0] == "ECallMethod":
            return 'ECallMethod %s "%s"' % (Analyzer.coq_owner(e[1]), e[2])
        return '%s "%s"' % (e[0], str(e[1]).replace('"', "'"))
    lines = ["(* GENERATED by harness/effects.py from the psec source on every check run - do not edit *)",
             "From Coq Require Import List String.", "From Psec Require Import Proofs.EffectPolicy.",
             "Import ListNotations.", "Open Scope string_scope.", "", "Definition effects : list fn_summary := ["]
    items = []
    for f in fns:
        seen, es = set(), []
        for e in f.effects:
            t = eff(e)
            if t not in seen:
                seen.add(t)
                es.append(t)
        bare = [x for x in f.name.split(".") if x != "setter"][-1]
        private = bare.startswith("_") and not bare.startswith("__")
        items.append('  {| fn_name := "%s"; fn_method := "%s"; fn_private := %s; fn_effects := [%s] |}'
                     % (f.name, bare, "true" if private else "false", "; ".join(es)))
    lines.append(";\n".join(items))
    lines.append("].")
    return "\n".join(lines) + "\n"


def regenerate(repo, out_path):
    txt = to_coq(analyse(repo))
    old = open(out_path).read() if os.path.exists(out_path) else None
    if old != txt:
        with open(out_path, "w") as f:
            f.write(txt)
    return txt


if __name__ == "__main__":
    sys.stdout.write(to_coq(analyse(sys.argv[1] if len(sys.argv) > 1 else "/repo")))
