(* Line protocol between the Python harness and the extracted model.
   request : <function> <arg> <arg> ...        one per line on stdin
   response: OK <value> ... | ERR <exception>  one per line on stdout
   lists (bytes, str) are comma separated decimals, "-" is the empty list,
   "N" is None; integers are decimal. *)
open Model

let rec pos_of_int i =
  if i = 1 then XH else if i land 1 = 0 then XO (pos_of_int (i lsr 1)) else XI (pos_of_int (i lsr 1))
let n_of_int i = if i = 0 then N0 else Npos (pos_of_int i)
let rec int_of_pos = function XH -> 1 | XO p -> 2 * int_of_pos p | XI p -> 2 * int_of_pos p + 1
let int_of_n = function N0 -> 0 | Npos p -> int_of_pos p
let nat_of_int i = let rec go i acc = if i = 0 then acc else go (i - 1) (S acc) in go i O
let int_of_nat n = let rec go n acc = match n with O -> acc | S m -> go m (acc + 1) in go n 0
let z_of_int i = if i = 0 then Z0 else if i > 0 then Zpos (pos_of_int i) else Zneg (pos_of_int (-i))

let lst s = if s = "-" then [] else List.map (fun x -> n_of_int (int_of_string x)) (String.split_on_char ',' s)
let show l = if l = [] then "-" else String.concat "," (List.map (fun x -> string_of_int (int_of_n x)) l)
let nat s = nat_of_int (int_of_string s)
let optnat s = if s = "N" then None else Some (nat s)
let optz s = if s = "N" then None else Some (z_of_int (int_of_string s))

let crash_name = function
  | CUnicodeEncode -> "UnicodeEncodeError" | COverflow -> "OverflowError" | CIndex -> "IndexError"
  | CKey -> "KeyError" | CZeroDiv -> "ZeroDivisionError" | CValue -> "binascii.Error" | CType -> "TypeError"
let err_name = function
  | ValueError -> "ValueError" | HeaderError -> "HeaderError" | KeyBlockError -> "KeyBlockError"
  | Crash k -> "Crash:" ^ crash_name k
let res f = function Ok v -> "OK " ^ f v | Err e -> "ERR " ^ err_name e

let show_blocks d =
  if d = [] then "-" else String.concat "/" (List.map (fun (k, v) -> show k ^ ":" ^ show v) d)
let show_header h =
  String.concat "|" [show h.version_id; show h.key_usage; show h.algorithm; show h.mode_of_use;
                     show h.version_num; show h.exportability; show h.reserved; show_blocks h.blocks]

let field_of_int = function
  | 0 -> FVersionId | 1 -> FKeyUsage | 2 -> FAlgorithm | 3 -> FModeOfUse | 4 -> FVersionNum | _ -> FExportability

(* harness-level op list: model ops, plus K=<kbpk> (attribute assignment kb.kbpk = ...,
   which only replaces the kbpk component of the state) *)
type hop = MOp of op | SetKbpk of bytes

let parse_hop_with parse_op tok =
  if String.length tok >= 2 && tok.[0] = 'K' && tok.[1] = '=' then
    SetKbpk (lst (String.sub tok 2 (String.length tok - 2)))
  else MOp (parse_op tok)

let parse_op tok =
  let tag = tok.[0] in
  let body = if String.length tok > 2 then String.sub tok 2 (String.length tok - 2) else "" in
  let parts = String.split_on_char ';' body in
  match tag, parts with
  | 'L', [s] -> OpLoad (lst s)
  | 'U', [s] -> OpUnwrap (lst s)
  | 'W', [k; m; t] -> OpWrap (lst k, optz m, lst t)
  | 'F', [i; v] -> OpSetField (field_of_int (int_of_string i), lst v)
  | 'B', [i; d] -> OpSetBlock (lst i, lst d)
  | 'D', [i] -> OpDelBlock (lst i)
  | 'S', _ -> OpStr
  | _ -> failwith ("bad op " ^ tok)

let show_out = function
  | OutNone -> "none" | OutNat n -> "nat:" ^ string_of_int (int_of_nat n)
  | OutBytes b -> "bytes:" ^ show b | OutStr s -> "str:" ^ show s | OutErr e -> "err:" ^ err_name e

let parse_api tok =
  let tag = tok.[0] in
  let body = if String.length tok > 2 then String.sub tok 2 (String.length tok - 2) else "" in
  let pair s = match String.split_on_char ';' s with [a; b] -> (lst a, lst b) | _ -> failwith ("bad pair " ^ s) in
  match tag with
  | 'S' -> let (a, b) = pair body in ASetItem (a, b)
  | 'U' -> AUpdate (if body = "" then [] else List.map pair (String.split_on_char '|' body))
  | 'F' -> let (a, b) = pair body in ASetDefault (a, b)
  | 'D' -> ADelItem (lst body) | 'P' -> APop (lst body) | 'I' -> APopItem | 'C' -> AClear
  | 'G' -> AGetItem (lst body) | 'K' -> AContains (lst body) | 'N' -> ALen
  | _ -> failwith ("bad api op " ^ tok)

let show_api_out = function
  | AoNone -> "none" | AoStr s -> "str:" ^ show s | AoPair (k, v) -> "pair:" ^ show k ^ ";" ^ show v
  | AoBool b -> "bool:" ^ (if b then "1" else "0") | AoNat n -> "nat:" ^ string_of_int (int_of_nat n)
  | AoErr e -> "err:" ^ err_name e

let handle toks =
  match toks with
  | ["des_block_enc"; k; b] -> "OK " ^ show (x_des_block_enc (lst k) (lst b))
  | ["des_block_dec"; k; b] -> "OK " ^ show (x_des_block_dec (lst k) (lst b))
  | ["aes_block_enc"; k; b] -> "OK " ^ show (x_aes_block_enc (lst k) (lst b))
  | ["aes_block_dec"; k; b] -> "OK " ^ show (x_aes_block_dec (lst k) (lst b))
  | ["draw"; stream; n] -> (match x_draw (lst stream) (nat n) with
                            | Some (syms, rest) -> "OK " ^ show syms ^ " " ^ show rest | None -> "ERR ValueError")
  | ["choices10"; stream] -> (match x_choices10 (lst stream) with
                            | Some (ch, rest) -> "OK " ^ show ch ^ " " ^ show rest | None -> "ERR ValueError")
  | ["xor"; a; b] -> "OK " ^ show (x_xor (lst a) (lst b))
  | ["odd_parity"; v] -> "OK " ^ string_of_int (int_of_n (x_odd_parity (n_of_int (int_of_string v))))
  | ["apply_key_variant"; k; v] -> res show (x_apply_key_variant (lst k) (z_of_int (int_of_string v)))
  | ["adjust_key_parity"; k] -> "OK " ^ show (x_adjust_key_parity (lst k))
  | ["generate_kcv"; k; l] -> res show (x_generate_kcv (lst k) (nat l))
  | ["encrypt_tdes_cbc"; k; iv; d] -> res show (x_encrypt_tdes_cbc (lst k) (lst iv) (lst d))
  | ["decrypt_tdes_cbc"; k; iv; d] -> res show (x_decrypt_tdes_cbc (lst k) (lst iv) (lst d))
  | ["encrypt_tdes_ecb"; k; d] -> res show (x_encrypt_tdes_ecb (lst k) (lst d))
  | ["decrypt_tdes_ecb"; k; d] -> res show (x_decrypt_tdes_ecb (lst k) (lst d))
  | ["encrypt_aes_cbc"; k; iv; d] -> res show (x_encrypt_aes_cbc (lst k) (lst iv) (lst d))
  | ["decrypt_aes_cbc"; k; iv; d] -> res show (x_decrypt_aes_cbc (lst k) (lst iv) (lst d))
  | ["encrypt_aes_ecb"; k; d] -> res show (x_encrypt_aes_ecb (lst k) (lst d))
  | ["decrypt_aes_ecb"; k; d] -> res show (x_decrypt_aes_ecb (lst k) (lst d))
  | ["pad_iso_1"; d; b] -> res show (x_pad_iso_1 (lst d) (nat b))
  | ["pad_iso_2"; d; b] -> res show (x_pad_iso_2 (lst d) (nat b))
  | ["pad_iso_3"; d; b] -> res show (x_pad_iso_3 (lst d) (nat b))
  | ["generate_cbc_mac"; k; d; p; l; a] ->
      res show (x_generate_cbc_mac (lst k) (lst d) (n_of_int (int_of_string p)) (optnat l) (a = "1"))
  | ["generate_retail_mac"; k1; k2; d; p; l] ->
      res show (x_generate_retail_mac (lst k1) (lst k2) (lst d) (n_of_int (int_of_string p)) (optnat l))
  | ["generate_cvv"; k; pan; e; s] -> res show (x_generate_cvv (lst k) (lst pan) (lst e) (lst s))
  | ["generate_cvv_legacy"; k; pan; e; s] -> res show (x_generate_cvv_legacy (lst k) (lst pan) (lst e) (lst s))
  | ["generate_ibm3624_pin"; k; t; o; pan; a; b; pad] ->
      res show (x_generate_ibm3624_pin (lst k) (lst t) (lst o) (lst pan) (nat a) (nat b) (lst pad))
  | ["generate_ibm3624_offset"; k; t; o; pan; a; b; pad] ->
      res show (x_generate_ibm3624_offset (lst k) (lst t) (lst o) (lst pan) (nat a) (nat b) (lst pad))
  | ["generate_visa_pvv"; k; i; pin; pan] -> res show (x_generate_visa_pvv (lst k) (lst i) (lst pin) (lst pan))
  | ["encode_pinblock_iso_0"; pin; pan] -> res show (x_encode_pinblock_iso_0 (lst pin) (lst pan))
  | ["encode_pinblock_iso_2"; pin] -> res show (x_encode_pinblock_iso_2 (lst pin))
  | ["encode_pinblock_iso_3"; pin; pan; ch] -> res show (x_encode_pinblock_iso_3 (lst pin) (lst pan) (lst ch))
  | ["encode_pin_field_iso_4"; pin; t] -> res show (x_encode_pin_field_iso_4 (lst pin) (lst t))
  | ["encode_pan_field_iso_4"; pan] -> res show (x_encode_pan_field_iso_4 (lst pan))
  | ["encipher_pinblock_iso_4"; k; pin; pan; t] ->
      res show (x_encipher_pinblock_iso_4 (lst k) (lst pin) (lst pan) (lst t))
  | ["decode_pinblock_iso_0"; b; pan] -> res show (x_decode_pinblock_iso_0 (lst b) (lst pan))
  | ["decode_pinblock_iso_2"; b] -> res show (x_decode_pinblock_iso_2 (lst b))
  | ["decode_pinblock_iso_3"; b; pan] -> res show (x_decode_pinblock_iso_3 (lst b) (lst pan))
  | ["decode_pin_field_iso_4"; b] -> res show (x_decode_pin_field_iso_4 (lst b))
  | ["decipher_pinblock_iso_4"; k; b; pan] -> res show (x_decipher_pinblock_iso_4 (lst k) (lst b) (lst pan))
  | ["unwrap"; k; s] -> res (fun (h, key) -> show_header h ^ " " ^ show key) (x_unwrap (lst k) (lst s))
  | ["unwrap_legacy"; k; s] -> res (fun (h, key) -> show_header h ^ " " ^ show key) (x_unwrap_legacy (lst k) (lst s))
  | ["unwrap_clear"; k; s] -> res show (x_unwrap_clear (lst k) (lst s))
  | ["wrap_str"; k; h; key; m; t] -> res show (x_wrap_str (lst k) (lst h) (lst key) (optz m) (lst t))
  | ["new_header"; v; ku; alg; mou; vn; ex] ->
      res show_header (x_new_header (lst v) (lst ku) (lst alg) (lst mou) (lst vn) (lst ex))
  | "run" :: k :: ops ->
      let hops = List.map (parse_hop_with parse_op) ops in
      let (st, outs) = List.fold_left (fun (st, outs) h ->
          match h with
          | SetKbpk kb -> (x_mkState kb st.st_header, OutNone :: outs)
          | MOp o -> let (st', out) = x_step st o in (st', out :: outs))
        (x_mkState (lst k) x_default_header, []) hops in
      "OK " ^ show_header st.st_header ^ " " ^ String.concat " " (List.map show_out (List.rev outs))
  | "api" :: ops ->
      let (d, outs) = x_api_run [] (List.map parse_api ops) in
      String.concat " " (("OK " ^ show_blocks d) :: List.map show_api_out outs)
  | ["p_fromhex"; s] -> res show (p_fromhex (lst s))
  | ["p_a2b"; s] -> res show (p_a2b (lst s))
  | ["p_str_of_N"; v] -> "OK " ^ show (p_str_of_N (n_of_int (int_of_string v)))
  | ["p_to_bytes_be"; k; v] -> res show (p_to_bytes_be (nat k) (n_of_int (int_of_string v)))
  | ["p_hex_lower"; b] -> "OK " ^ show (p_hex_lower (lst b))
  | ["p_hex_upper"; b] -> "OK " ^ show (p_hex_upper (lst b))
  | ["p_class"; s] -> "OK " ^ show (p_class (lst s))
  | ["p_upper"; s] -> "OK " ^ show (p_upper (lst s))
  | ["p_int_of_dec"; s] -> res (fun v -> string_of_int (int_of_n v)) (p_int_of_dec (lst s))
  | ["p_int_of_hex"; s] -> res (fun v -> string_of_int (int_of_n v)) (p_int_of_hex (lst s))
  | ["p_encode_ascii"; s] -> res show (p_encode_ascii (lst s))
  | _ -> "BAD request"

let () =
  try
    while true do
      let line = input_line stdin in
      let toks = List.filter (fun s -> s <> "") (String.split_on_char ' ' line) in
      let out = try handle toks with e -> "BAD " ^ Printexc.to_string e in
      print_string out; print_newline ()
    done
  with End_of_file -> ()
